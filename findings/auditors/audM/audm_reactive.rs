//! Auditor M probes: reactive core.
use std::cell::{Cell, RefCell};
use std::rc::Rc;

use sycamore_reactive::*;

/// C01/C02: dependency edge added during propagation towards a memo that is later in the order.
#[test]
fn dynamic_edge_to_dirty_memo() {
    let _ = create_root(|| {
        let r = create_signal(0);
        let m = create_memo(move || r.get() * 2); // created first => visited first by dfs
        let c = create_memo(move || r.get() > 0);
        let seen = create_signal(-1);
        create_effect(move || {
            let v = if c.get() { m.get() } else { -100 };
            seen.set_silent(v);
        });
        assert_eq!(seen.get_untracked(), -100);
        r.set(5);
        assert_eq!(m.get_untracked(), 10);
        assert_eq!(seen.get_untracked(), 10, "effect observed a stale memo");
    });
}

/// Same, two levels deep: the memo that is read for the first time is not even marked dirty yet.
#[test]
fn dynamic_edge_to_pending_memo_chain() {
    let _ = create_root(|| {
        let r = create_signal(0);
        let a = create_memo(move || r.get() + 1);
        let m = create_memo(move || a.get() * 2);
        let c = create_memo(move || r.get() > 0);
        let seen = create_signal(-1);
        let runs = create_signal(0);
        create_effect(move || {
            runs.set_silent(runs.get_untracked() + 1);
            let v = if c.get() { m.get() } else { -100 };
            seen.set_silent(v);
        });
        r.set(5);
        assert_eq!(m.get_untracked(), 12);
        assert_eq!(seen.get_untracked(), 12, "effect observed a stale memo");
        assert_eq!(runs.get_untracked(), 2);
    });
}

/// C10: the same graph, written inside a batch.
#[test]
fn dynamic_edge_in_batch() {
    let _ = create_root(|| {
        let r = create_signal(0);
        let m = create_memo(move || r.get() * 2);
        let c = create_memo(move || r.get() > 0);
        let d = create_memo(move || if c.get() { m.get() } else { -100 });
        batch(|| {
            r.set(1);
            r.set(5);
        });
        assert_eq!(d.get_untracked(), 10, "memo is not consistent after the batch");
    });
}

/// A memo created by an effect during the propagation reads a memo that is still pending.
#[test]
fn memo_created_during_propagation_reads_pending_memo() {
    let _ = create_root(|| {
        let r = create_signal(0);
        let m = create_memo(move || r.get() * 2);
        let c = create_memo(move || r.get() > 0);
        let inner: Rc<Cell<Option<ReadSignal<i32>>>> = Rc::new(Cell::new(None));
        create_effect({
            let inner = inner.clone();
            move || {
                if c.get() {
                    inner.set(Some(create_memo(move || m.get() + 1)));
                }
            }
        });
        r.set(5);
        assert_eq!(inner.get().unwrap().get_untracked(), 11, "inner memo is stale");
    });
}

/// Selector in the middle.
#[test]
fn dynamic_edge_selector() {
    let _ = create_root(|| {
        let r = create_signal(0);
        let m = create_selector(move || r.get() / 2);
        let c = create_selector(move || r.get() > 0);
        let d = create_memo(move || if c.get() { m.get() } else { -100 });
        r.set(10);
        assert_eq!(d.get_untracked(), 5);
    });
}

// ------------------------------------------------------------------------------------------------
// Probes of the thread-level tracking root / batching (no violation found).
// ------------------------------------------------------------------------------------------------

#[test]
fn untrack_memo_untrack_nesting() {
    let _ = create_root(|| {
        let a = create_signal(0);
        let b = create_signal(0);
        let c = create_signal(0);
        let d = create_signal(0);
        let runs = Rc::new(Cell::new(0));
        let inner_runs = Rc::new(Cell::new(0));
        create_effect({
            let runs = runs.clone();
            let inner_runs = inner_runs.clone();
            move || {
                runs.set(runs.get() + 1);
                a.track();
                let inner_runs = inner_runs.clone();
                untrack(move || {
                    b.track();
                    let inner_runs = inner_runs.clone();
                    create_memo(move || {
                        inner_runs.set(inner_runs.get() + 1);
                        c.track();
                        untrack(|| d.track());
                    });
                    b.track();
                });
                // tracking must be back on
                let _ = on(c, || ())();
            }
        });
        assert_eq!((runs.get(), inner_runs.get()), (1, 1));
        b.set(1);
        assert_eq!((runs.get(), inner_runs.get()), (1, 1));
        d.set(1);
        assert_eq!((runs.get(), inner_runs.get()), (1, 1));
        c.set(1); // outer (via on) and inner memo both depend on c
        assert_eq!(runs.get(), 2);
        a.set(1);
        assert_eq!(runs.get(), 3);
    });
}

#[test]
fn cross_root_tracking_and_batch() {
    let mut sa = None;
    let mut sb = None;
    let ra = create_root(|| sa = Some(create_signal(0)));
    let rb = create_root(|| sb = Some(create_signal(0)));
    let (sa, sb) = (sa.unwrap(), sb.unwrap());
    let a_runs = Rc::new(Cell::new(0));
    let b_runs = Rc::new(Cell::new(0));
    ra.run_in(|| {
        let a_runs = a_runs.clone();
        let b_runs = b_runs.clone();
        create_effect(move || {
            a_runs.set(a_runs.get() + 1);
            sa.track();
            // a computation of B created/run while A's effect is the running one
            let b_runs = b_runs.clone();
            rb.run_in(move || {
                create_effect(move || {
                    b_runs.set(b_runs.get() + 1);
                    sb.track();
                    sa.track(); // foreign: not tracked by anybody
                });
            });
            sa.track();
        });
    });
    assert_eq!((a_runs.get(), b_runs.get()), (1, 1));
    sb.set(1);
    assert_eq!((a_runs.get(), b_runs.get()), (1, 2));
    // batch under root B writing to both
    rb.run_in(|| {
        batch(|| {
            sa.set(1);
            sb.set(2);
            batch(|| sa.set(2));
            assert_eq!((a_runs.get(), b_runs.get()), (1, 2));
        });
    });
    // A's effect re-ran once and created a second B effect (the B root owns both B effects):
    // the first B effect ran for sb, the new one ran at creation.
    assert_eq!(a_runs.get(), 2);
    ra.dispose();
    rb.dispose();
}

#[test]
fn batch_in_effect_flushed_by_batch_and_dispose_in_batch() {
    let _ = create_root(|| {
        let a = create_signal(0);
        let b = create_signal(0);
        let c = create_signal(0);
        let log = Rc::new(RefCell::new(Vec::<String>::new()));
        create_effect({
            let log = log.clone();
            move || {
                let v = a.get();
                log.borrow_mut().push(format!("E1 a={v}"));
                batch(|| {
                    b.set(v);
                    c.set(v);
                    log.borrow_mut().push("E1 in-batch".into());
                });
                log.borrow_mut().push("E1 end".into());
            }
        });
        create_effect({
            let log = log.clone();
            move || log.borrow_mut().push(format!("E2 b={} c={}", b.get(), c.get()))
        });
        log.borrow_mut().clear();
        let scope = create_child_scope(|| {
            let log = log.clone();
            create_effect(move || log.borrow_mut().push(format!("E3 a={}", a.get())));
            on_cleanup(|| ());
        });
        log.borrow_mut().clear();
        batch(|| {
            a.set(1);
            a.set(2);
            scope.dispose();
            assert!(log.borrow().is_empty());
        });
        assert_eq!(
            *log.borrow(),
            vec!["E1 a=2", "E1 in-batch", "E2 b=2 c=2", "E1 end"]
        );
    });
}

#[test]
fn cleanup_and_on_are_untracked_under_foreign_root() {
    let mut s = None;
    let ra = create_root(|| s = Some(create_signal(0)));
    let rb = create_root(|| {});
    let s = s.unwrap();
    let runs = Rc::new(Cell::new(0));
    ra.run_in(|| {
        let runs = runs.clone();
        create_effect(move || {
            runs.set(runs.get() + 1);
            rb.run_in(|| {
                on_cleanup(move || s.track());
                let h = create_child_scope(|| on_cleanup(move || s.track()));
                h.dispose();
                let dummy = create_signal(0);
                let _ = on(dummy, move || s.track())();
                untrack(|| s.track());
            });
        });
    });
    s.set(1);
    assert_eq!(runs.get(), 1);
    rb.dispose();
    s.set(2);
    assert_eq!(runs.get(), 1);
    ra.dispose();
}

/// C02, static graph: an untracked read of a memo that is later in the propagation order.
#[test]
fn untracked_read_of_pending_memo() {
    let _ = create_root(|| {
        let r = create_signal(0);
        let m = create_memo(move || r.get() * 2);
        let seen = create_signal((0, 0));
        create_effect(move || {
            let now = r.get();
            seen.set_silent((now, m.get_untracked()));
        });
        r.set(5);
        // While the write was propagated the effect read `m` when `r` was already 5.
        assert_eq!(seen.get_untracked(), (5, 10), "effect read an out-of-date memo");
    });
}
