use sycamore_reactive::*;
#[test]
fn depth_after_self_dispose() {
    let _ = create_root(|| {
        let trigger = create_signal(0);
        let _scope = create_child_scope(move || {
            let me = use_current_scope();
            create_effect(move || {
                if trigger.get() > 0 {
                    me.dispose();
                    // the callback keeps running in a disposed scope
                    let _ = use_scope_depth();
                }
            });
        });
        trigger.set(1);
    });
}
