// F28 (fixed by the commit recorded in known_findings.json): integration test for packages/sycamore-reactive/tests/.
// Before the fix `old.is_alive()` is true after two signals were created in the re-initialised root (the slot map was replaced by a
// new one in Root::reinit, so keys restarted and collided with those of destroyed nodes).
use sycamore_reactive::*;

#[test]
fn stale_handle_after_root_dispose() {
    let mut old = None;
    let root = create_root(|| {
        let _pad = create_signal(0);
        old = Some(create_signal(1));
    });
    let old = old.unwrap();
    root.dispose();
    assert!(!old.is_alive(), "right after disposal");
    root.run_in(|| {
        let _a = create_signal(10);
        let _b = create_signal(20);
        assert!(!old.is_alive(), "a destroyed signal reports alive after new nodes were created in the re-initialised root");
    });
}
