// F23 (fixed by e5feb0c): unit tests appended to packages/sycamore-web/src/resource.rs `mod tests` in a scratch worktree,
// run with `cargo test -p sycamore-web --offline --features suspense f23_`.
// Before the fix both panic with "RefCell already mutably borrowed" (signals.rs, is_alive) from inside NodeHandle::dispose.

    #[tokio::test]
    async fn f23_dispose_scope_with_loading_resource_under_suspense() {
        provide_executor_scope(async {
            let root = create_root(|| {
                let _ = sycamore_futures::create_suspense_scope(|| {
                    let child = create_child_scope(|| {
                        let r = create_isomorphic_resource(|| futures::future::pending::<i32>());
                        // reading a loading resource under a suspense boundary adds a guard
                        let _ = r.get_clone();
                    });
                    child.dispose();
                });
            });
            root.dispose();
        })
        .await;
    }

    #[tokio::test]
    async fn f23_guard_in_context() {
        provide_executor_scope(async {
            let root = create_root(|| {
                let _ = sycamore_futures::create_suspense_scope(|| {
                    let child = create_child_scope(|| {
                        provide_context(SuspenseTaskGuard::new());
                    });
                    child.dispose();
                });
            });
            root.dispose();
        })
        .await;
    }
