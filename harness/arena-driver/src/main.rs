//! C04 (identity of destroyed nodes) driver: histories of node creations / disposals / root re-initialisations through the
//! real sycamore-reactive API, observed through the raw slot-map keys behind the handles.
//! stdin, one history per line, tokens: `n` create_signal, `s<K>` a child scope holding K signals, `d<H>` dispose handle
//! number H (handles are numbered in creation order, the root scope is 0; dead handles are left alone as the library's
//! `dispose` does), `r` RootHandle::dispose from outside the root (the new root scope becomes the next handle).
//! stdout per history: one line per token, `ffi:alive` of every handle so far, comma separated; `PANIC` if the step
//! panicked. Histories are separated by `==`.
use std::io::{self, BufRead, Write};
use std::panic::{self, AssertUnwindSafe};

use sycamore_reactive::*;

#[derive(Clone, Copy)]
enum H {
    Sig(Signal<i32>),
    Node(NodeHandle),
}

impl H {
    fn ffi(self) -> u64 {
        match self {
            H::Sig(s) => verif::signal_id(*s),
            H::Node(n) => verif::handle_id(n),
        }
    }
    fn alive(self) -> bool {
        match self {
            H::Sig(s) => s.is_alive(),
            H::Node(n) => verif::handle_is_alive(n),
        }
    }
    fn dispose(self) {
        match self {
            H::Sig(s) => s.dispose(),
            H::Node(n) => n.dispose(),
        }
    }
}

fn run_history(line: &str) -> Vec<String> {
    let mut lines = Vec::new();
    let mut hs: Vec<H> = Vec::new();
    let root = create_root(|| {});
    hs.push(H::Node(root.run_in(use_global_scope)));
    for tok in line.split(' ').filter(|t| !t.is_empty()) {
        let r = panic::catch_unwind(AssertUnwindSafe(|| {
            let (op, arg) = tok.split_at(1);
            match op {
                "n" => hs.push(H::Sig(root.run_in(|| create_signal(0)))),
                "s" => {
                    let k: usize = arg.parse().unwrap();
                    let mut inner = Vec::new();
                    let scope = root.run_in(|| {
                        create_child_scope(|| {
                            for _ in 0..k {
                                inner.push(H::Sig(create_signal(0)));
                            }
                        })
                    });
                    hs.push(H::Node(scope));
                    hs.extend(inner);
                }
                "d" => {
                    let h = hs[arg.parse::<usize>().unwrap()];
                    if h.alive() {
                        h.dispose();
                    }
                }
                "r" => {
                    root.dispose();
                    hs.push(H::Node(root.run_in(use_global_scope)));
                }
                _ => panic!("bad token"),
            }
        }));
        if r.is_err() {
            lines.push("PANIC".to_string());
            break;
        }
        lines.push(hs.iter().map(|h| format!("{}:{}", h.ffi(), h.alive() as u8)).collect::<Vec<_>>().join(","));
    }
    root.dispose();
    lines
}

fn main() {
    panic::set_hook(Box::new(|_| {}));
    let stdin = io::stdin();
    let out = io::stdout();
    let mut out = out.lock();
    let mut first = true;
    for line in stdin.lock().lines() {
        let line = line.unwrap();
        if !first {
            writeln!(out, "==").unwrap();
        }
        first = false;
        for l in run_history(&line) {
            writeln!(out, "{l}").unwrap();
        }
    }
}
