// Shared by ssr-driver and dom-driver: the view vocabulary of coq/theories/Ssr/View.v built through the real
// builder API. The including module must provide `use <sycamore-web items>::*` (View, tags, custom_element,
// GlobalProps, GlobalAttributes, Show, Keyed, Indexed, NoHydrate, NoSsr, Children, create_signal, ...).

pub fn unhex(s: &str) -> String {
    let s = s.strip_prefix('x').unwrap_or(s);
    let bytes: Vec<u8> = (0..s.len() / 2).map(|i| u8::from_str_radix(&s[2 * i..2 * i + 2], 16).unwrap()).collect();
    String::from_utf8(bytes).expect("scenario strings are UTF-8")
}
pub fn hex(s: &str) -> String {
    s.bytes().map(|b| format!("{b:02x}")).collect()
}
fn leak(s: String) -> &'static str {
    Box::leak(s.into_boxed_str())
}

/// The same content gives the same `&'static str` (same address), as a string literal or a `static` used in several places of a
/// program does: static text and attribute values built from it are `Cow::Borrowed`.
#[allow(dead_code)]
fn lit(s: &str) -> &'static str {
    static TABLE: std::sync::Mutex<Option<std::collections::HashMap<String, &'static str>>> = std::sync::Mutex::new(None);
    let mut t = TABLE.lock().unwrap();
    let t = t.get_or_insert_with(Default::default);
    if let Some(x) = t.get(s) {
        return x;
    }
    let x = leak(s.to_string());
    t.insert(s.to_string(), x);
    x
}

thread_local! {
    static LITERALS: std::cell::Cell<bool> = const { std::cell::Cell::new(false) };
}
/// `true`: static text and static attribute values are passed to the library as string literals (`&'static str`), not as owned strings
#[allow(dead_code)]
pub fn set_literals(b: bool) {
    LITERALS.with(|c| c.set(b));
}
fn literals() -> bool {
    LITERALS.with(|c| c.get())
}

#[derive(Clone)]
pub enum Attr {
    Str(String, String),
    Dyn(String, u32),
    Bool(String, bool),
    BoolDyn(String, u32),
}

#[derive(Clone)]
pub enum VSpec {
    El(String, Vec<Attr>, Vec<VSpec>),
    Text(String),
    DynText(u32),
    Dyn(u32, Vec<VSpec>, Vec<VSpec>),
    Frag(Vec<VSpec>),
    Show(u32, Vec<VSpec>),
    List(bool, u32, Vec<VSpec>),
    Item,
    Comp(Vec<VSpec>),
    NoHydrate(Vec<VSpec>),
    NoSsr(Vec<VSpec>),
}

pub fn parse_views(l: &[Sx]) -> Vec<VSpec> {
    l.iter().map(parse_view).collect()
}

pub fn parse_view(s: &Sx) -> VSpec {
    let l = s.list();
    match l[0].atom() {
        "el" => VSpec::El(
            unhex(l[1].atom()),
            l[2].list()
                .iter()
                .map(|a| {
                    let a = a.list();
                    match a[0].atom() {
                        "a" => Attr::Str(unhex(a[1].atom()), unhex(a[2].atom())),
                        "adyn" => Attr::Dyn(unhex(a[1].atom()), a[2].num()),
                        "b" => Attr::Bool(unhex(a[1].atom()), a[2].atom() == "1"),
                        "bdyn" => Attr::BoolDyn(unhex(a[1].atom()), a[2].num()),
                        x => panic!("bad attr {x}"),
                    }
                })
                .collect(),
            parse_views(l[3].list()),
        ),
        "text" => VSpec::Text(unhex(l[1].atom())),
        "dyntext" => VSpec::DynText(l[1].num()),
        "dyn" => VSpec::Dyn(l[1].num(), parse_views(l[2].list()), parse_views(l[3].list())),
        "frag" => VSpec::Frag(parse_views(&l[1..])),
        "show" => VSpec::Show(l[1].num(), parse_views(&l[2..])),
        "list" => VSpec::List(l[1].atom() == "keyed", l[2].num(), parse_views(l[3].list())),
        "item" => VSpec::Item,
        "comp" => VSpec::Comp(parse_views(&l[1..])),
        "nohydrate" => VSpec::NoHydrate(parse_views(&l[1..])),
        "nossr" => VSpec::NoSsr(parse_views(&l[1..])),
        x => panic!("bad view {x}"),
    }
}

/// The signals a view reads: Option<String>, bool and Vec<i64> signals by number.
#[derive(Clone, Default)]
pub struct Signals {
    pub strs: std::rc::Rc<std::cell::RefCell<std::collections::BTreeMap<u32, Signal<Option<String>>>>>,
    pub bools: std::rc::Rc<std::cell::RefCell<std::collections::BTreeMap<u32, Signal<bool>>>>,
    pub lists: std::rc::Rc<std::cell::RefCell<std::collections::BTreeMap<u32, Signal<Vec<i64>>>>>,
}

impl Signals {
    /// `((s K xHEX|none) (b K 0|1) (l K (i ...)) ...)` -- must be called inside a reactive scope
    pub fn create(spec: &Sx) -> Self {
        let me = Signals::default();
        for e in spec.list() {
            let e = e.list();
            let k: u32 = e[1].num();
            match e[0].atom() {
                "s" => {
                    let v = if e[2].atom() == "none" { None } else { Some(unhex(e[2].atom())) };
                    me.strs.borrow_mut().insert(k, create_signal(v));
                }
                "b" => {
                    me.bools.borrow_mut().insert(k, create_signal(e[2].atom() == "1"));
                }
                "l" => {
                    me.lists.borrow_mut().insert(k, create_signal(e[2].list().iter().map(|x| x.num()).collect()));
                }
                x => panic!("bad signal kind {x}"),
            }
        }
        me
    }
    pub fn s(&self, k: u32) -> Signal<Option<String>> {
        *self.strs.borrow().get(&k).unwrap_or_else(|| panic!("no string signal {k}"))
    }
    pub fn b(&self, k: u32) -> Signal<bool> {
        *self.bools.borrow().get(&k).unwrap_or_else(|| panic!("no bool signal {k}"))
    }
    pub fn l(&self, k: u32) -> Signal<Vec<i64>> {
        *self.lists.borrow().get(&k).unwrap_or_else(|| panic!("no list signal {k}"))
    }
    /// `(s K xHEX|none)` / `(b K 0|1)` / `(l K (i ...))`
    pub fn apply(&self, op: &Sx) {
        let e = op.list();
        let k: u32 = e[1].num();
        match e[0].atom() {
            "s" => self.s(k).set(if e[2].atom() == "none" { None } else { Some(unhex(e[2].atom())) }),
            "b" => self.b(k).set(e[2].atom() == "1"),
            "l" => self.l(k).set(e[2].list().iter().map(|x| x.num()).collect()),
            x => panic!("bad op {x}"),
        }
    }
}

fn apply_attrs<E: GlobalAttributes>(mut el: E, attrs: &[Attr], sigs: &Signals) -> E {
    for a in attrs {
        el = match a {
            Attr::Str(n, v) => {
                if literals() {
                    el.attr(leak(n.clone()), lit(v))
                } else {
                    el.attr(leak(n.clone()), v.clone())
                }
            }
            Attr::Dyn(n, k) => {
                let sig = sigs.s(*k);
                el.attr(leak(n.clone()), move || sig.get_clone().map(std::borrow::Cow::from))
            }
            Attr::Bool(n, b) => el.bool_attr(leak(n.clone()), *b),
            Attr::BoolDyn(n, k) => {
                let sig = sigs.b(*k);
                el.bool_attr(leak(n.clone()), move || sig.get())
            }
        };
    }
    el
}

pub fn build_all(vs: &[VSpec], sigs: &Signals, item: Option<i64>) -> View {
    View::from(vs.iter().map(|v| build(v, sigs, item)).collect::<Vec<View>>())
}

thread_local! {
    static CHILDREN_FIRST: std::cell::Cell<bool> = const { std::cell::Cell::new(false) };
}
pub fn set_children_first(b: bool) {
    CHILDREN_FIRST.with(|c| c.set(b));
}
pub fn children_first() -> bool {
    CHILDREN_FIRST.with(|c| c.get())
}

pub fn build(v: &VSpec, sigs: &Signals, item: Option<i64>) -> View {
    match v {
        VSpec::El(tag, attrs, children) => {
            // a few typed builders, the generic one for everything else (incl. custom elements)
            macro_rules! finish {
                ($e:expr) => {{
                    // children-first mode: the children are built before the element that will hold them (a wrapper component that
                    // calls `children.call()` before creating its wrapper, or a child built first and inserted later)
                    let pre: Option<Vec<View>> =
                        if children_first() { Some(children.iter().map(|c| build(c, sigs, item)).collect()) } else { None };
                    let el = apply_attrs($e, attrs, sigs);
                    let kids: Vec<View> = match pre {
                        Some(k) => k,
                        None => children.iter().map(|c| build(c, sigs, item)).collect(),
                    };
                    if kids.is_empty() {
                        el.into()
                    } else {
                        el.children(kids).into()
                    }
                }};
            }
            match tag.as_str() {
                "div" => finish!(tags::div()),
                "span" => finish!(tags::span()),
                "p" => finish!(tags::p()),
                "script" => finish!(tags::script()),
                "style" => finish!(tags::style()),
                "br" => finish!(tags::br()),
                "input" => finish!(tags::input()),
                "ul" => finish!(tags::ul()),
                "li" => finish!(tags::li()),
                "svg" => finish!(tags::svg()),
                "circle" => finish!(tags::circle()),
                _ => finish!(custom_element(leak(tag.clone()))),
            }
        }
        VSpec::Text(s) => {
            if literals() {
                View::from(lit(s))
            } else {
                View::from(s.clone())
            }
        }
        VSpec::DynText(k) => {
            let sig = sigs.s(*k);
            View::from_dynamic(move || sig.get_clone().unwrap_or_default())
        }
        VSpec::Dyn(k, a, b) => {
            let sig = sigs.b(*k);
            let (a, b, sigs) = (a.clone(), b.clone(), sigs.clone());
            View::from_dynamic(move || if sig.get() { build_all(&a, &sigs, item) } else { build_all(&b, &sigs, item) })
        }
        VSpec::Frag(vs) => build_all(vs, sigs, item),
        VSpec::Show(k, vs) => {
            let sig = sigs.b(*k);
            let (vs, sigs) = (vs.clone(), sigs.clone());
            let children = Children::new(move || build_all(&vs, &sigs, item));
            sycamore_core::component_scope(move || Show(ShowProps::builder().when(move || sig.get()).children(children).build()))
        }
        VSpec::List(keyed, k, tmpl) => {
            let sig = sigs.l(*k);
            let (tmpl, sigs) = (tmpl.clone(), sigs.clone());
            let view = move |x: i64| build_all(&tmpl, &sigs, Some(x));
            if *keyed {
                sycamore_core::component_scope(move || Keyed(KeyedProps::builder().list(sig).view(view).key(|x| *x).build()))
            } else {
                sycamore_core::component_scope(move || Indexed(IndexedProps::builder().list(sig).view(view).build()))
            }
        }
        VSpec::Item => View::from(item.map(|i| i.to_string()).unwrap_or_default()),
        VSpec::Comp(vs) => {
            let (vs, sigs) = (vs.clone(), sigs.clone());
            sycamore_core::component_scope(move || build_all(&vs, &sigs, item))
        }
        VSpec::NoHydrate(vs) => {
            let (vs, sigs) = (vs.clone(), sigs.clone());
            let children = Children::new(move || build_all(&vs, &sigs, item));
            sycamore_core::component_scope(move || NoHydrate(NoHydrate_Props::builder().children(children).build()))
        }
        VSpec::NoSsr(vs) => {
            let (vs, sigs) = (vs.clone(), sigs.clone());
            let children = Children::new(move || build_all(&vs, &sigs, item));
            sycamore_core::component_scope(move || NoSsr(NoSsr_Props::builder().children(children).build()))
        }
    }
}
