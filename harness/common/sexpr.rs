//! Minimal s-expression reader shared by the drivers.
#[derive(Debug, Clone)]
pub enum Sx {
    Atom(String),
    List(Vec<Sx>),
}

impl Sx {
    pub fn atom(&self) -> &str {
        match self {
            Sx::Atom(a) => a,
            Sx::List(_) => panic!("expected atom, found list"),
        }
    }
    pub fn list(&self) -> &[Sx] {
        match self {
            Sx::List(l) => l,
            Sx::Atom(a) => panic!("expected list, found atom {a}"),
        }
    }
    pub fn num<T: std::str::FromStr>(&self) -> T
    where
        T::Err: std::fmt::Debug,
    {
        self.atom().parse().unwrap()
    }
}

pub fn parse(s: &str) -> Sx {
    let b = s.as_bytes();
    let mut pos = 0;
    let r = parse_at(b, &mut pos);
    r
}

fn parse_at(b: &[u8], pos: &mut usize) -> Sx {
    while *pos < b.len() && b[*pos].is_ascii_whitespace() {
        *pos += 1;
    }
    if b[*pos] == b'(' {
        *pos += 1;
        let mut items = Vec::new();
        loop {
            while *pos < b.len() && b[*pos].is_ascii_whitespace() {
                *pos += 1;
            }
            if b[*pos] == b')' {
                *pos += 1;
                return Sx::List(items);
            }
            items.push(parse_at(b, pos));
        }
    } else {
        let start = *pos;
        while *pos < b.len() && !b[*pos].is_ascii_whitespace() && b[*pos] != b'(' && b[*pos] != b')' {
            *pos += 1;
        }
        Sx::Atom(String::from_utf8_lossy(&b[start..*pos]).into_owned())
    }
}
