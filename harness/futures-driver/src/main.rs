//! C13 / C14 driver: trees of reactive scopes and suspense scopes with tasks made of chained awaits, driven step by
//! step on a current-thread tokio runtime + LocalSet. The schedule (which gate opens when, where a disposal is
//! inserted) is an explicit input.
//!
//! stdin, one scenario per line: `(PROG SCHEDULE)`
//!   PROG     ::= (NODE ...)
//!   NODE     ::= (sus ID NODE ...)   create_suspense_scope; probe ID observes scope.is_loading() and use_is_loading()
//!              | (scope ID NODE ...) create_child_scope, handle ID
//!              | (task T N)          create_suspense_task: N chained awaits (gates), then done
//!              | (spawn T N)         spawn_local_scoped: the same body without a suspense guard
//!              | (flip ID)           a child scope whose cleanup clears a flag, followed by an effect that tracks the flag and holds a
//!                                    SuspenseTaskGuard for the enclosing boundary while it is alive (a hand-made "busy" indicator):
//!                                    when the enclosing scope is disposed the cleanup re-runs the effect in the middle of the disposal
//!              | (wait T B)          a plain scoped task in the current scope that awaits `until_finished()` of boundary B (built before it)
//!                                    and then logs done:T -- a waiter that survives the disposal of the boundary it waits for
//!              | (res T N)           create_isomorphic_resource whose fetch is the same body, read once while loading (the read
//!                                    registers a guard with the enclosing boundary; the guards live in a signal of the scope)
//!   SCHEDULE ::= ((go T) | (dispose ID) ...)
//! stdout per scenario: one line per step (step 0 = after construction):
//!   `log <events> ; load <ID>=<0|1|dead> ... ; n <tasks_remaining per sus ID>` ; events: `poll:T:i`, `done:T`, `PANIC:<msg>`
//! scenarios separated by `==`.
#[path = "../../common/sexpr.rs"]
mod sexpr;

use std::cell::RefCell;
use std::collections::BTreeMap;
use std::future::Future;
use std::io::{self, BufRead, Write};
use std::panic::{self, AssertUnwindSafe};
use std::pin::Pin;
use std::rc::Rc;
use std::task::{Context, Poll};

use futures::channel::oneshot;
use sexpr::Sx;
use sycamore_futures::*;
use sycamore_reactive::*;

thread_local! {
    static LOG: RefCell<Vec<String>> = const { RefCell::new(Vec::new()) };
}
fn log(s: String) {
    LOG.with(|l| l.borrow_mut().push(s));
}

/// logs every poll of the wrapped future
struct Logged<F> {
    inner: Pin<Box<F>>,
    tag: String,
}
impl<F: Future> Future for Logged<F> {
    type Output = F::Output;
    fn poll(mut self: Pin<&mut Self>, cx: &mut Context<'_>) -> Poll<F::Output> {
        log(self.tag.clone());
        self.inner.as_mut().poll(cx)
    }
}

#[derive(Default)]
struct World {
    gates: BTreeMap<u32, Vec<oneshot::Sender<()>>>, // remaining gates of each task, next first
    probes: BTreeMap<u32, (ReadSignal<bool>, ReadSignal<bool>)>,
    handles: BTreeMap<u32, NodeHandle>,
    boundaries: BTreeMap<u32, SuspenseScope>,
}

fn build(nodes: &[Sx], w: &Rc<RefCell<World>>) {
    for n in nodes {
        let l = n.list();
        match l[0].atom() {
            "sus" => {
                let id: u32 = l[1].num();
                let rest: Vec<Sx> = l[2..].to_vec();
                let w2 = w.clone();
                let ((), scope) = create_suspense_scope(move || {
                    w2.borrow_mut().handles.insert(id, use_current_scope());
                    let inner = use_is_loading();
                    // placeholder for the scope-level probe, filled in below
                    w2.borrow_mut().probes.insert(id, (inner, inner));
                    build(&rest, &w2);
                });
                w.borrow_mut().boundaries.insert(id, scope);
                let outer = scope.is_loading();
                let inner = w.borrow().probes[&id].1;
                w.borrow_mut().probes.insert(id, (outer, inner));
            }
            "scope" => {
                let id: u32 = l[1].num();
                let rest: Vec<Sx> = l[2..].to_vec();
                let w2 = w.clone();
                let h = create_child_scope(move || build(&rest, &w2));
                w.borrow_mut().handles.insert(id, h);
            }
            "task" | "spawn" => {
                let t: u32 = l[1].num();
                let n: u32 = l[2].num();
                let mut senders = Vec::new();
                let mut receivers = Vec::new();
                for _ in 0..n {
                    let (tx, rx) = oneshot::channel::<()>();
                    senders.push(tx);
                    receivers.push(rx);
                }
                w.borrow_mut().gates.insert(t, senders);
                let body = async move {
                    for (i, rx) in receivers.into_iter().enumerate() {
                        let _ = Logged { inner: Box::pin(rx), tag: format!("poll:{t}:{i}") }.await;
                    }
                    log(format!("done:{t}"));
                };
                if l[0].atom() == "task" {
                    create_suspense_task(body);
                } else {
                    spawn_local_scoped(body);
                }
            }
            "wait" => {
                let t: u32 = l[1].num();
                let b: u32 = l[2].num();
                let scope = *w.borrow().boundaries.get(&b).expect("boundary built before its waiter");
                spawn_local_scoped(async move {
                    scope.until_finished().await;
                    log(format!("done:{t}"));
                });
            }
            "flip" => {
                let flag = use_global_scope().run_in(|| create_signal(true)); // the flag outlives the scope that is disposed
                let _ = create_child_scope(move || on_cleanup(move || flag.set(false)));
                create_effect(move || {
                    flag.track();
                    let guard = SuspenseTaskGuard::new();
                    on_cleanup(move || drop(guard));
                });
            }
            "res" => {
                let t: u32 = l[1].num();
                let n: u32 = l[2].num();
                let mut senders = Vec::new();
                let mut receivers = Vec::new();
                for _ in 0..n {
                    let (tx, rx) = oneshot::channel::<()>();
                    senders.push(tx);
                    receivers.push(rx);
                }
                w.borrow_mut().gates.insert(t, senders);
                let mut body = Some(Box::pin(async move {
                    for (i, rx) in receivers.into_iter().enumerate() {
                        let _ = Logged { inner: Box::pin(rx), tag: format!("poll:{t}:{i}") }.await;
                    }
                    log(format!("done:{t}"));
                    t
                }) as Pin<Box<dyn Future<Output = u32>>>);
                // no dependencies: the fetch function is called exactly once
                let r = sycamore_web::create_isomorphic_resource(move || body.take().expect("fetched once"));
                let _ = r.get_clone();
            }
            x => panic!("bad node {x}"),
        }
    }
}

async fn settle() {
    for _ in 0..24 {
        tokio::task::yield_now().await;
    }
}

fn observe(w: &Rc<RefCell<World>>, root: RootHandle) -> String {
    let evs = LOG.with(|l| std::mem::take(&mut *l.borrow_mut()));
    let mut loads = Vec::new();
    for (id, (outer, inner)) in w.borrow().probes.iter() {
        let probe = |sig: &ReadSignal<bool>| {
            let sig = *sig;
            panic::catch_unwind(AssertUnwindSafe(move || (sig.get_untracked() as u8).to_string())).unwrap_or_else(|_| "dead".to_string())
        };
        let (a, b) = (probe(outer), probe(inner));
        let v = if a == b { a } else { format!("{a}/{b}") };
        loads.push(format!("{id}={v}"));
    }
    // use_is_loading_global(): is any suspense scope loading? (what the blocking render waits on)
    let glob = panic::catch_unwind(AssertUnwindSafe(|| root.run_in(|| untrack(|| use_is_loading_global() as u8)).to_string())).unwrap_or_else(|_| "PANIC".to_string());
    // the panic hook logs probe panics too: drop those
    LOG.with(|l| l.borrow_mut().retain(|e| !e.starts_with("PANIC")));
    format!("log {} ; load {} ; glob {}", evs.join(" "), loads.join(" "), glob)
}

async fn run_scenario(line: String) -> Vec<String> {
    let sx = sexpr::parse(&line);
    let l = sx.list();
    let prog: Vec<Sx> = l[0].list().to_vec();
    let schedule: Vec<Sx> = l[1].list().to_vec();
    let w = Rc::new(RefCell::new(World::default()));
    let mut out = Vec::new();
    LOG.with(|l| l.borrow_mut().clear());
    let w2 = w.clone();
    let prog_again = prog.clone();
    let root = create_root(move || build(&prog, &w2));
    // `(early ID)` as the first step: the scope is disposed right after the tree has been built, BEFORE the executor has polled
    // anything (an effect re-run twice in one synchronous block, a page left at once); the line after it replaces the initial one
    let mut schedule = schedule;
    if let Some(first) = schedule.first() {
        let s = first.list();
        if s[0].atom() == "early" {
            let id: u32 = s[1].num();
            let h = w.borrow().handles.get(&id).copied();
            if let Some(h) = h {
                let r = panic::catch_unwind(AssertUnwindSafe(|| root.run_in(|| h.dispose())));
                if r.is_err() {
                    log("PANIC:at-dispose".to_string());
                }
            }
            schedule.remove(0);
        }
    }
    settle().await;
    out.push(observe(&w, root));
    for step in schedule {
        let s = step.list();
        match s[0].atom() {
            "go" => {
                let t: u32 = s[1].num();
                let tx = {
                    let mut wb = w.borrow_mut();
                    wb.gates.get_mut(&t).and_then(|g| if g.is_empty() { None } else { Some(g.remove(0)) })
                };
                if let Some(tx) = tx {
                    let _ = tx.send(());
                }
            }
            "dispose" => {
                let id: u32 = s[1].num();
                let h = w.borrow().handles.get(&id).copied();
                if let Some(h) = h {
                    let r = panic::catch_unwind(AssertUnwindSafe(|| root.run_in(|| h.dispose())));
                    if r.is_err() {
                        log("PANIC:at-dispose".to_string());
                    }
                }
            }
            x => panic!("bad step {x}"),
        }
        settle().await;
        out.push(observe(&w, root));
    }
    // drop everything that is still pending: must not panic either
    let r = panic::catch_unwind(AssertUnwindSafe(|| root.dispose()));
    if r.is_err() {
        log("PANIC:at-root-dispose".to_string());
    }
    // the root is used again at once (as the per-thread root of the SSR entry points is): the same tree is built in it BEFORE the
    // executor has dropped the tasks cancelled by the disposal; what those tasks held must not touch the new boundaries
    let w3 = Rc::new(RefCell::new(World::default()));
    let w4 = w3.clone();
    let again = panic::catch_unwind(AssertUnwindSafe(|| root.run_in(move || build(&prog_again, &w4))));
    if again.is_err() {
        log("PANIC:at-rebuild".to_string());
    }
    w.borrow_mut().gates.clear();
    settle().await;
    out.push(format!("again {}", observe(&w3, root)));
    let r = panic::catch_unwind(AssertUnwindSafe(|| root.dispose()));
    if r.is_err() {
        log("PANIC:at-root-dispose".to_string());
    }
    w3.borrow_mut().gates.clear();
    settle().await;
    let evs = LOG.with(|l| std::mem::take(&mut *l.borrow_mut()));
    out.push(format!("end {}", evs.join(" ")));
    out
}

fn main() {
    panic::set_hook(Box::new(|info| {
        let msg = if let Some(s) = info.payload().downcast_ref::<&str>() {
            s.to_string()
        } else if let Some(s) = info.payload().downcast_ref::<String>() {
            s.clone()
        } else {
            String::new()
        };
        let short: String = msg.split('.').next().unwrap_or("").replace(' ', "_");
        log(format!("PANIC:{short}"));
    }));
    let rt = tokio::runtime::Builder::new_current_thread().build().unwrap();
    let stdin = io::stdin();
    let out = io::stdout();
    let mut out = io::BufWriter::new(out.lock());
    let mut first = true;
    for line in stdin.lock().lines() {
        let line = line.unwrap();
        if line.trim().is_empty() {
            continue;
        }
        if !first {
            writeln!(out, "==").unwrap();
        }
        first = false;
        let local = tokio::task::LocalSet::new();
        let lines = local.block_on(&rt, run_scenario(line));
        // let the local set drop whatever is left
        drop(local);
        for l in lines {
            writeln!(out, "{l}").unwrap();
        }
    }
}
