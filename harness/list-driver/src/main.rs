//! C07 driver: chains of list updates through the real `map_keyed` / `map_indexed`.
//! stdin, one chain per line: `K` or `I`, a space, then the successive lists separated by `|`,
//! each list a space-separated sequence of `key:payload`.
//! stdout per chain: for every update one line `out <ids> ; ev <events> ; n <live nodes>` where
//! events are `c:<key>:<payload>:<id>` (map_fn called) and `d:<id>` (cleanup of that item's scope ran);
//! or `PANIC`. Chains are separated by `==`.
use std::cell::RefCell;
use std::io::{self, BufRead, Write};
use std::panic::{self, AssertUnwindSafe};
use std::rc::Rc;

use sycamore_reactive::*;

type Item = (u32, u32);

fn parse_list(s: &str) -> Vec<Item> {
    s.split(' ')
        .filter(|t| !t.is_empty())
        .map(|t| {
            let (k, p) = t.split_once(':').unwrap();
            (k.parse().unwrap(), p.parse().unwrap())
        })
        .collect()
}

fn run_chain(line: &str) -> Vec<String> {
    let (mode, rest) = line.split_once(' ').unwrap_or((line, ""));
    let lists: Vec<Vec<Item>> = rest.split('|').map(parse_list).collect();
    let keyed = mode == "K";
    let mut lines = Vec::new();
    let root = create_root(|| {
        let events: Rc<RefCell<Vec<String>>> = Rc::new(RefCell::new(Vec::new()));
        let counter = Rc::new(RefCell::new(0u32));
        let list = create_signal(Vec::<Item>::new());
        let map_fn = {
            let events = events.clone();
            let counter = counter.clone();
            move |it: Item| {
                let id = *counter.borrow();
                *counter.borrow_mut() += 1;
                events.borrow_mut().push(format!("c:{}:{}:{}", it.0, it.1, id));
                let events = events.clone();
                on_cleanup(move || events.borrow_mut().push(format!("d:{id}")));
                id
            }
        };
        let mapped = if keyed { map_keyed(list, map_fn, |it| it.0) } else { map_indexed(list, map_fn) };
        let base = verif::node_count();
        for l in lists {
            let r = panic::catch_unwind(AssertUnwindSafe(|| {
                list.set(l.clone());
                mapped.get_clone()
            }));
            match r {
                Ok(out) => {
                    let evs = std::mem::take(&mut *events.borrow_mut());
                    lines.push(format!(
                        "out {} ; ev {} ; n {}",
                        out.iter().map(|x| x.to_string()).collect::<Vec<_>>().join(" "),
                        evs.join(" "),
                        verif::node_count() - base
                    ));
                }
                Err(_) => {
                    lines.push("PANIC".to_string());
                    break;
                }
            }
        }
    });
    let _ = panic::catch_unwind(AssertUnwindSafe(|| root.dispose()));
    lines
}

fn main() {
    panic::set_hook(Box::new(|info| {
        if std::env::var("VERIF_DEBUG").is_ok() {
            eprintln!("{info}");
        }
    }));
    let stdin = io::stdin();
    let out = io::stdout();
    let mut out = io::BufWriter::new(out.lock());
    let mut first = true;
    for line in stdin.lock().lines() {
        let line = line.unwrap();
        if line.trim().is_empty() {
            continue;
        }
        if !first {
            writeln!(out, "==").unwrap();
        }
        first = false;
        for l in run_chain(&line) {
            writeln!(out, "{l}").unwrap();
        }
    }
}
