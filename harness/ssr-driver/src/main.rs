//! SSR driver (C08, C12; C13/C15 use the async entry points): builds views of the shared vocabulary with the
//! real builder API and renders them with the real `render_to_string*`.
//! stdin, one scenario per line: `(seq (MODE SIGNALS VIEW) ...)` with MODE = sync.
//! stdout per render: `<hex of the output> n=<live reactive nodes seen when the view function starts>`;
//! scenarios are separated by `==`.
#[path = "../../common/sexpr.rs"]
mod sexpr;

use std::io::{self, BufRead, Write};
use std::panic::{self, AssertUnwindSafe};

use sycamore_reactive::*;
use sycamore_web::*;

mod viewspec {
    use super::sexpr::Sx;
    use sycamore_core::Props;
    use sycamore_reactive::*;
    use sycamore_web::*;
    include!("../../common/viewspec.rs");
}
use viewspec::*;

fn run_scenario(line: &str) -> Vec<String> {
    let sx = sexpr::parse(line);
    let l = sx.list();
    assert_eq!(l[0].atom(), "seq");
    let mut out = Vec::new();
    for r in &l[1..] {
        let r = r.list();
        let mode = r[0].atom().to_string();
        let sig_spec = r[1].clone();
        let view = parse_view(&r[2]);
        let res = panic::catch_unwind(AssertUnwindSafe(|| match mode.as_str() {
            "sync" => {
                let mut n = 0;
                let s = render_to_string(|| {
                    n = verif::node_count();
                    let sigs = Signals::create(&sig_spec);
                    build(&view, &sigs, None)
                });
                format!("{} n={}", hex(&s), n)
            }
            m => panic!("unsupported mode {m}"),
        }));
        match res {
            Ok(s) => out.push(s),
            Err(_) => {
                out.push("PANIC".to_string());
                break;
            }
        }
    }
    out
}

fn main() {
    panic::set_hook(Box::new(|info| {
        if std::env::var("VERIF_DEBUG").is_ok() {
            eprintln!("{info}");
        }
    }));
    let stdin = io::stdin();
    let out = io::stdout();
    let mut out = io::BufWriter::new(out.lock());
    let mut first = true;
    for line in stdin.lock().lines() {
        let line = line.unwrap();
        if line.trim().is_empty() {
            continue;
        }
        if !first {
            writeln!(out, "==").unwrap();
        }
        first = false;
        for l in run_scenario(&line) {
            writeln!(out, "{l}").unwrap();
        }
    }
}
