//! SSR driver (C08, C12; C13/C15 use the async entry points): builds views of the shared vocabulary with the
//! real builder API and renders them with the real `render_to_string*`.
//! stdin, one scenario per line: `(seq (MODE SIGNALS VIEW) ...)` with MODE = sync.
//! stdout per render: `<hex of the output> n=<live reactive nodes seen when the view function starts>`;
//! scenarios are separated by `==`.
#[path = "../../common/sexpr.rs"]
mod sexpr;

use std::io::{self, BufRead, Write};
use std::panic::{self, AssertUnwindSafe};

use sycamore_reactive::*;
use sycamore_web::*;

mod viewspec {
    use super::sexpr::Sx;
    use sycamore_core::Props;
    use sycamore_reactive::*;
    use sycamore_web::*;
    include!("../../common/viewspec.rs");
}
use viewspec::*;

mod suspense;

fn run_scenario(line: &str) -> Vec<String> {
    let sx = sexpr::parse(line);
    let l = sx.list();
    if l[0].atom() == "resource" {
        return panic::catch_unwind(AssertUnwindSafe(|| run_resource(&sx))).unwrap_or_else(|_| vec!["PANIC".to_string()]);
    }
    if l[0].atom() == "suspense" {
        return panic::catch_unwind(AssertUnwindSafe(|| suspense::run(&sx))).unwrap_or_else(|_| vec!["PANIC".to_string()]);
    }
    assert_eq!(l[0].atom(), "seq");
    let mut out = Vec::new();
    for r in &l[1..] {
        let r = r.list();
        let mode = r[0].atom().to_string();
        if mode == "sus" {
            // (sus MODE AVIEW (G ...)): one of the suspense renders of suspense.rs inside a sequence
            let res = panic::catch_unwind(AssertUnwindSafe(|| suspense::run_one(r[1].atom(), &r[2], &r[3])));
            match res {
                // after=: live nodes in the render's root once the render has FINISHED (blocking: returned; streaming: stream ended); - otherwise
                Ok((lines, n, sc, after)) => out.push(format!(
                    "{} n={} sc={},{} after={}",
                    lines.join("|").replace(' ', "_"),
                    n,
                    sc.0,
                    sc.1,
                    after.map(|a| a.to_string()).unwrap_or_else(|| "-".to_string())
                )),
                Err(_) => {
                    out.push("PANIC".to_string());
                    break;
                }
            }
            continue;
        }
        if mode == "counters" {
            // (counters N): a div with N dynamic views, each of which takes a stable counter value when it is built (an id for a label /
            // input pair, say) and creates one element
            let n_dyn: usize = r[1].num();
            let res = panic::catch_unwind(AssertUnwindSafe(|| {
                let mut n = 0;
                let mut sc = (0, 0);
                let s = render_to_string(|| {
                    n = verif::node_count();
                    sc = (use_stable_counter(), use_stable_counter());
                    let kids: Vec<View> = (0..n_dyn)
                        .map(|_| {
                            View::from_dynamic(move || {
                                let id = use_stable_counter();
                                View::from(tags::span().id(format!("l{id}")))
                            })
                        })
                        .collect();
                    tags::div().children(kids).into()
                });
                format!("{} n={} sc={},{}", hex(&s), n, sc.0, sc.1)
            }));
            match res {
                Ok(s) => out.push(s),
                Err(_) => {
                    out.push("PANIC".to_string());
                    break;
                }
            }
            continue;
        }
        let sig_spec = r[1].clone();
        let view = parse_view(&r[2]);
        // `synccf`: the same render with every element's children built before the element itself
        set_children_first(mode == "synccf");
        // `synclit`: static text and attribute values are string literals (the same content = the same `&'static str`)
        set_literals(mode == "synclit");
        let res = panic::catch_unwind(AssertUnwindSafe(|| match mode.as_str() {
            "sync" | "synccf" | "synclit" => {
                let mut n = 0;
                let mut sc = (0, 0);
                let s = render_to_string(|| {
                    n = verif::node_count();
                    sc = (use_stable_counter(), use_stable_counter());
                    let sigs = Signals::create(&sig_spec);
                    build(&view, &sigs, None)
                });
                format!("{} n={} sc={},{}", hex(&s), n, sc.0, sc.1)
            }
            m => panic!("unsupported mode {m}"),
        }));
        match res {
            Ok(s) => out.push(s),
            Err(_) => {
                out.push("PANIC".to_string());
                break;
            }
        }
    }
    out
}

/// C15: `(resource (STEP ...))` with STEP = (write V) | (complete K) -- a resource whose fetch reads a dependency
/// signal; fetch number K (in start order) completes with the dependency value it was started for.
/// Output: one line per step (step 0 = after creation): `value=<none|v> loading=<0|1> started=<n>`.
fn run_resource(sx: &sexpr::Sx) -> Vec<String> {
    use futures::channel::oneshot;
    use std::cell::RefCell;
    use std::rc::Rc;
    let steps: Vec<sexpr::Sx> = sx.list()[1].list().to_vec();
    let rt = tokio::runtime::Builder::new_current_thread().build().unwrap();
    let local = tokio::task::LocalSet::new();
    local.block_on(&rt, async move {
        let mut out = Vec::new();
        let senders: Rc<RefCell<Vec<Option<oneshot::Sender<i64>>>>> = Rc::new(RefCell::new(Vec::new()));
        let started: Rc<RefCell<Vec<i64>>> = Rc::new(RefCell::new(Vec::new()));
        let mut dep = None;
        let mut res = None;
        let (s2, st2) = (senders.clone(), started.clone());
        // `(resource (STEPS) sus)`: the resource is created under a suspense boundary and read there by an effect (as a view would);
        // every line gets a field `sus=<0|1>`: the boundary's is_loading
        let under_sus = sx.list().len() > 2 && sx.list()[2].atom() == "sus";
        // `(resource (STEPS) susout)`: the resource lives in the root scope and is READ (by an effect) under a suspense boundary that
        // lives in a child scope; step `(unmount)` disposes that child scope (a page that is left); the resource goes on
        let sus_out = sx.list().len() > 2 && sx.list()[2].atom() == "susout";
        let mut holder = None;
        let mut boundary = None;
        // `(resource (STEPS) two)`: the dependencies are a PAIR on((d, d2), ..) and the fetch is started for d + d2; an even write goes
        // to d, an odd one to d2 (each so that the sum becomes the written value)
        let two = sx.list().len() > 2 && sx.list()[2].atom() == "two";
        // `(resource (STEPS) self)`: the fetch future itself moves the dependency on (to value + 1) when the value it received ends
        // in 7, in its last poll, before returning that value (e.g. clamping a page number to the page count it just learnt)
        let selfw = sx.list().len() > 2 && sx.list()[2].atom() == "self";
        // `(resource (STEPS) clamp)`: a helper effect, created before the resource, clamps the dependency to 50 (a page number clamped
        // to the page count): a write above 50 is followed, in the same propagation, by the helper's write of 50.
        // `(resource (STEPS) reset)`: dependencies on((d, d2), ..), fetch started for d * 1000 + d2; an even write goes to d (the
        // query) and a helper effect on(d, ..) then resets d2 (the page) to 0; an odd write goes to d2.
        // Both print a field `fetches=v0,v1,...`: the dependency values the fetches were started for, in start order.
        let clamp = sx.list().len() > 2 && sx.list()[2].atom() == "clamp";
        let reset = sx.list().len() > 2 && sx.list()[2].atom() == "reset";
        let mut dep2 = None;
        let root = create_root(|| {
            let d = create_signal(0i64);
            let d2 = create_signal(0i64);
            dep = Some(d);
            dep2 = Some(d2);
            if clamp {
                create_effect(move || {
                    if d.get() > 50 {
                        d.set(50);
                    }
                });
            }
            let mk = move || {
                let fetch = move || {
                    let v = if reset { d.get() * 1000 + d2.get() } else { d.get() + d2.get() };
                    let (tx, rx) = oneshot::channel::<i64>();
                    s2.borrow_mut().push(Some(tx));
                    st2.borrow_mut().push(v);
                    async move {
                        let r = rx.await.unwrap_or(-1);
                        if selfw && r.rem_euclid(10) == 7 {
                            d.set(r + 1);
                        }
                        r
                    }
                };
                if two || reset {
                    create_isomorphic_resource(on((d, d2), fetch))
                } else {
                    create_isomorphic_resource(on(d, fetch))
                }
            };
            if under_sus {
                let (r, scope) = sycamore_futures::create_suspense_scope(|| {
                    let r = mk();
                    create_effect(move || {
                        let _ = r.get_clone();
                    });
                    r
                });
                res = Some(r);
                boundary = Some(scope.is_loading());
            } else if sus_out {
                let r = mk();
                res = Some(r);
                holder = Some(create_child_scope(|| {
                    let ((), scope) = sycamore_futures::create_suspense_scope(|| {
                        create_effect(move || {
                            let _ = r.get_clone();
                        });
                    });
                    boundary = Some(scope.is_loading());
                }));
            } else {
                res = Some(mk());
            }
        });
        let (dep, dep2, res) = (dep.unwrap(), dep2.unwrap(), res.unwrap());
        if reset {
            root.run_in(|| create_effect(on(dep, move || dep2.set(0))));
        }
        // `(resource (STEPS) fb)`: a feedback edge from the resource's value to its dependency, behind a selector: when the
        // value ends in 7 the dependency is moved on to value + 1 (following a redirect, loading the next page)
        if sx.list().len() > 2 && sx.list()[2].atom() == "fb" {
            root.run_in(|| {
                let moved = create_selector(move || res.get_clone().filter(|v| v.rem_euclid(10) == 7));
                create_effect(on(moved, move || {
                    if let Some(v) = moved.get() {
                        dep.set(v + 1);
                    }
                }));
            });
        }
        let settle = || async {
            for _ in 0..24 {
                tokio::task::yield_now().await;
            }
        };
        let observe = |out: &mut Vec<String>| {
            let v = root.run_in(|| untrack(|| res.get_clone_untracked()));
            let l = root.run_in(|| untrack(|| res.is_loading()));
            let mut line = format!(
                "value={} loading={} started={}",
                v.map(|x| x.to_string()).unwrap_or_else(|| "none".into()),
                l as u8,
                started.borrow().len()
            );
            if clamp || reset {
                line.push_str(&format!(" fetches={}", started.borrow().iter().map(|v| v.to_string()).collect::<Vec<_>>().join(",")));
            }
            if let Some(b) = boundary {
                if b.is_alive() {
                    line.push_str(&format!(" sus={}", b.get_untracked() as u8));
                } else {
                    line.push_str(" sus=gone");
                }
            }
            out.push(line);
        };
        settle().await;
        observe(&mut out);
        for st in steps {
            let st = st.list();
            match st[0].atom() {
                "write" => {
                    let v: i64 = st[1].num();
                    root.run_in(|| {
                        if reset {
                            if v.rem_euclid(2) == 1 {
                                dep2.set(v)
                            } else {
                                dep.set(v)
                            }
                        } else if two && v.rem_euclid(2) == 1 {
                            dep2.set(v - dep.get_untracked())
                        } else {
                            dep.set(v - dep2.get_untracked())
                        }
                    });
                }
                "complete" => {
                    let k: usize = st[1].num();
                    let tx = senders.borrow_mut().get_mut(k).and_then(|s| s.take());
                    if let Some(tx) = tx {
                        let v = started.borrow()[k];
                        let _ = tx.send(v);
                    }
                }
                "unmount" => {
                    if let Some(h) = holder.take() {
                        root.run_in(|| h.dispose());
                    }
                }
                x => panic!("bad step {x}"),
            }
            settle().await;
            observe(&mut out);
        }
        // disposing the scope with fetches still pending must not panic, neither here nor when the executor drops the
        // cancelled tasks (tokio swallows such panics: the hook counts them)
        let before = PANICS.with(|p| p.get());
        root.dispose();
        settle().await;
        out.push(format!("end panics={}", PANICS.with(|p| p.get()) - before));
        out
    })
}

thread_local! {
    static PANICS: std::cell::Cell<u32> = const { std::cell::Cell::new(0) };
}

fn main() {
    panic::set_hook(Box::new(|info| {
        PANICS.with(|p| p.set(p.get() + 1));
        if std::env::var("VERIF_DEBUG").is_ok() {
            eprintln!("{info}");
        }
    }));
    let stdin = io::stdin();
    let out = io::stdout();
    let mut out = io::BufWriter::new(out.lock());
    let mut first = true;
    for line in stdin.lock().lines() {
        let line = line.unwrap();
        if line.trim().is_empty() {
            continue;
        }
        if !first {
            writeln!(out, "==").unwrap();
        }
        first = false;
        // every scenario (= one sequence of renders) runs on a fresh thread: what the library keeps in thread-locals starts
        // from its initial state, as on a thread that has rendered nothing yet
        let lines = std::thread::Builder::new()
            .stack_size(64 << 20)
            .spawn(move || run_scenario(&line))
            .unwrap()
            .join()
            .unwrap_or_else(|_| vec!["PANIC".to_string()]);
        for l in lines {
            writeln!(out, "{l}").unwrap();
        }
    }
}
