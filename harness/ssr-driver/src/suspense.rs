//! C13 (rendering half): `(suspense MODE VIEW (G ...))` -- a view made of static text / elements, Suspense
//! boundaries and async components, each awaiting one gate (a oneshot channel) before it returns its resolved
//! view (which may again contain boundaries and async components), rendered with the real `render_to_string`
//! (MODE = sync), `render_to_string_await_suspense` (blocking) or `render_to_string_stream` (streaming) while the
//! gates are opened in the given order.
//! VIEW = (text xHEX) | (el xTAG (VIEW ...)) | (sus (FALLBACK ...) (CHILD ...)) | (async G (RESOLVED ...)) | (dyn (VIEW ...))
//! Output, one line per event: `sync <hex>` | `<step> pending` | `<step> done <hex>` | `<step> chunk <hex>` |
//! `<step> end`; step 0 = before any gate is opened, step k = after the k-th gate of the schedule.
use std::cell::RefCell;
use std::collections::HashMap;
use std::rc::Rc;

use futures::channel::oneshot;
use futures::StreamExt;
use sycamore_core::Props;
use sycamore_web::*;

use super::sexpr::Sx;
use super::viewspec::{hex, unhex};

#[derive(Clone)]
enum AView {
    Text(String),
    El(String, Vec<AView>),
    Sus(Vec<AView>, Vec<AView>),
    /// `Transition`: a Suspense whose content lives in a detached suspense scope
    Trans(Vec<AView>, Vec<AView>),
    Async(u32, Vec<AView>),
    /// a dynamic block `(move || view)`: its content is built inside an effect scope
    Dyn(Vec<AView>),
    /// `(resv G (views))`: a Resource created at the top of the render (outside every boundary) whose fetch completes when gate G
    /// opens, READ here by a dynamic view that shows nothing while it is loading and the views once it has a value
    ResView(u32, Vec<AView>),
    /// `(cresv (views))`: like `resv`, but a CLIENT resource (create_client_resource): on the server it is never fetched, the reader
    /// shows nothing, and no task is registered with the boundary
    ClientResView(Vec<AView>),
    /// `(resu G (views))`: the reverse of `resv`: the reader shows the views WHILE the resource is loading and nothing once it has a
    /// value, so that the boundaries and tasks inside the views are disposed in the middle of the render
    ResUntil(u32, Vec<AView>),
    /// `(flip G)`: a suspense task of the surrounding boundary that waits for gate G and then sets the flag G (shows nothing).
    /// `(when G (views))` / `(unless G (views))`: dynamic views showing the views once / until the flag G is set: content -- boundaries
    /// and tasks included -- that is created resp. disposed in the middle of the render by a task registered somewhere else
    Flip(u32),
    When(u32, Vec<AView>),
    Unless(u32, Vec<AView>),
    /// `(live)`: a dynamic text showing a signal ("alive") that a cleanup callback of the surrounding scope sets to "gone": what is
    /// rendered must be the state the render reached, not the state after its scopes were disposed
    Live,
}

thread_local! {
    static RESOURCES: RefCell<HashMap<u32, Resource<u32>>> = RefCell::new(HashMap::new());
    static FLAGS: RefCell<HashMap<u32, sycamore_reactive::Signal<bool>>> = RefCell::new(HashMap::new());
}

fn flag(g: u32) -> sycamore_reactive::Signal<bool> {
    FLAGS.with(|m| *m.borrow().get(&g).expect("flag prepared"))
}

/// create the resources of all `resv` nodes, in the current (render) scope
fn prepare_resources(v: &AView, gates: &Gates) {
    match v {
        AView::Text(_) | AView::Live => {}
        AView::Flip(g) => {
            // (created in the render scope, outside every boundary and dynamic view)
            let s = sycamore_reactive::create_signal(false);
            FLAGS.with(|m| m.borrow_mut().insert(*g, s));
        }
        AView::When(_, ch) | AView::Unless(_, ch) => ch.iter().for_each(|c| prepare_resources(c, gates)),
        AView::El(_, ch) | AView::Dyn(ch) | AView::ClientResView(ch) => ch.iter().for_each(|c| prepare_resources(c, gates)),
        AView::Sus(fb, ch) | AView::Trans(fb, ch) => {
            fb.iter().for_each(|c| prepare_resources(c, gates));
            ch.iter().for_each(|c| prepare_resources(c, gates));
        }
        AView::Async(_, res) => res.iter().for_each(|c| prepare_resources(c, gates)),
        AView::ResView(g, vs) | AView::ResUntil(g, vs) => {
            // a gate that is already taken: the SAME resource is read at several places (under several boundaries)
            let Some(rx) = gates.borrow_mut().remove(g) else {
                vs.iter().for_each(|c| prepare_resources(c, gates));
                return;
            };
            let mut rx = Some(rx);
            let g = *g;
            let r = create_isomorphic_resource(move || {
                let rx = rx.take();
                async move {
                    if let Some(rx) = rx {
                        let _ = rx.await;
                    }
                    g
                }
            });
            RESOURCES.with(|m| m.borrow_mut().insert(g, r));
            vs.iter().for_each(|c| prepare_resources(c, gates));
        }
    }
}

fn parse(s: &Sx) -> AView {
    let l = s.list();
    match l[0].atom() {
        "text" => AView::Text(unhex(l[1].atom())),
        "el" => AView::El(unhex(l[1].atom()), l[2].list().iter().map(parse).collect()),
        "sus" => AView::Sus(l[1].list().iter().map(parse).collect(), l[2].list().iter().map(parse).collect()),
        "trans" => AView::Trans(l[1].list().iter().map(parse).collect(), l[2].list().iter().map(parse).collect()),
        "async" => AView::Async(l[1].num(), l[2].list().iter().map(parse).collect()),
        "dyn" => AView::Dyn(l[1].list().iter().map(parse).collect()),
        "resv" => AView::ResView(l[1].num(), l[2].list().iter().map(parse).collect()),
        "resu" => AView::ResUntil(l[1].num(), l[2].list().iter().map(parse).collect()),
        "flip" => AView::Flip(l[1].num()),
        "when" => AView::When(l[1].num(), l[2].list().iter().map(parse).collect()),
        "unless" => AView::Unless(l[1].num(), l[2].list().iter().map(parse).collect()),
        "live" => AView::Live,
        "cresv" => AView::ClientResView(l[1].list().iter().map(parse).collect()),
        x => panic!("bad async view {x}"),
    }
}

type Gates = Rc<RefCell<HashMap<u32, oneshot::Receiver<()>>>>;

fn build_all(vs: &[AView], gates: &Gates) -> View {
    View::from(vs.iter().map(|v| build(v, gates)).collect::<Vec<View>>())
}

fn build(v: &AView, gates: &Gates) -> View {
    match v {
        AView::Text(s) => View::from(s.clone()),
        AView::El(tag, ch) => {
            let kids: Vec<View> = ch.iter().map(|c| build(c, gates)).collect();
            macro_rules! finish {
                ($e:expr) => {{
                    let el = $e;
                    if kids.is_empty() {
                        el.into()
                    } else {
                        el.children(kids).into()
                    }
                }};
            }
            match tag.as_str() {
                "div" => finish!(tags::div()),
                "span" => finish!(tags::span()),
                "p" => finish!(tags::p()),
                _ => finish!(custom_element(Box::leak(tag.clone().into_boxed_str()))),
            }
        }
        AView::Sus(fb, ch) => {
            let (fb, ch, g1, g2) = (fb.clone(), ch.clone(), gates.clone(), gates.clone());
            let children = Children::new(move || build_all(&ch, &g2));
            sycamore_core::component_scope(move || {
                Suspense(SuspenseProps::builder().fallback(move || build_all(&fb, &g1)).children(children).build())
            })
        }
        AView::Trans(fb, ch) => {
            let (fb, ch, g1, g2) = (fb.clone(), ch.clone(), gates.clone(), gates.clone());
            let children = Children::new(move || build_all(&ch, &g2));
            sycamore_core::component_scope(move || {
                Transition(SuspenseProps::builder().fallback(move || build_all(&fb, &g1)).children(children).build())
            })
        }
        AView::Dyn(ch) => {
            let (ch, gates) = (ch.clone(), gates.clone());
            View::from_dynamic(move || build_all(&ch, &gates))
        }
        AView::ClientResView(vs) => {
            let r = create_client_resource(|| async { 1u32 });
            let (vs, gates) = (vs.clone(), gates.clone());
            View::from_dynamic(move || match r.get_clone() {
                None => View::default(),
                Some(_) => build_all(&vs, &gates),
            })
        }
        AView::Flip(g) => {
            let rx = gates.borrow_mut().remove(g).unwrap_or_else(|| panic!("gate {g} used twice"));
            let f = flag(*g);
            sycamore_futures::create_suspense_task(async move {
                let _ = rx.await;
                f.set(true);
            });
            View::default()
        }
        AView::When(g, vs) | AView::Unless(g, vs) => {
            let f = flag(*g);
            let want = matches!(v, AView::When(..));
            let (vs, gates) = (vs.clone(), gates.clone());
            View::from_dynamic(move || if f.get() == want { build_all(&vs, &gates) } else { View::default() })
        }
        AView::Live => {
            let s = sycamore_reactive::create_signal("alive".to_string());
            sycamore_reactive::on_cleanup(move || s.set("gone".to_string()));
            View::from_dynamic(move || View::from(s.get_clone()))
        }
        AView::ResView(g, vs) => {
            let r = RESOURCES.with(|m| *m.borrow().get(g).expect("resource prepared"));
            let (vs, gates) = (vs.clone(), gates.clone());
            View::from_dynamic(move || match r.get_clone() {
                None => View::default(),
                Some(_) => build_all(&vs, &gates),
            })
        }
        AView::ResUntil(g, vs) => {
            let r = RESOURCES.with(|m| *m.borrow().get(g).expect("resource prepared"));
            let (vs, gates) = (vs.clone(), gates.clone());
            View::from_dynamic(move || match r.get_clone() {
                None => build_all(&vs, &gates),
                Some(_) => View::default(),
            })
        }
        AView::Async(g, res) => {
            let rx = gates.borrow_mut().remove(g).unwrap_or_else(|| panic!("gate {g} used twice"));
            let (res, gates) = (res.clone(), gates.clone());
            sycamore_core::component_scope(move || {
                WrapAsync(move || async move {
                    let _ = rx.await;
                    build_all(&res, &gates)
                })
            })
        }
    }
}

fn gates_of(v: &AView, out: &mut Vec<u32>) {
    match v {
        AView::Text(_) | AView::Live => {}
        AView::Flip(g) => out.push(*g),
        AView::When(_, ch) | AView::Unless(_, ch) => ch.iter().for_each(|c| gates_of(c, out)),
        AView::El(_, ch) => ch.iter().for_each(|c| gates_of(c, out)),
        AView::Sus(fb, ch) | AView::Trans(fb, ch) => {
            fb.iter().for_each(|c| gates_of(c, out));
            ch.iter().for_each(|c| gates_of(c, out));
        }
        AView::Dyn(ch) => ch.iter().for_each(|c| gates_of(c, out)),
        AView::ClientResView(_) => {}
        AView::Async(g, res) | AView::ResView(g, res) | AView::ResUntil(g, res) => {
            out.push(*g);
            res.iter().for_each(|c| gates_of(c, out));
        }
    }
}

async fn settle() {
    for _ in 0..32 {
        tokio::task::yield_now().await;
    }
}

pub fn run(sx: &Sx) -> Vec<String> {
    let l = sx.list();
    // panics inside spawned tasks are swallowed by the executor (the task just dies): the hook counts them
    let before = crate::PANICS.with(|p| p.get());
    let mut lines = run_one(l[1].atom(), &l[2], &l[3]).0;
    if crate::PANICS.with(|p| p.get()) > before {
        lines.push("PANIC".to_string());
    }
    lines
}

/// one render; also returns the number of live reactive nodes seen when the view function starts
pub fn run_one(mode: &str, view: &Sx, sched: &Sx) -> (Vec<String>, usize, (u32, u32), Option<usize>) {
    let mode = mode.to_string();
    let view = parse(view);
    let schedule: Vec<u32> = sched.list().iter().map(|g| g.num()).collect();
    let count = Rc::new(std::cell::Cell::new(0usize));
    let (c1, c2, c3) = (count.clone(), count.clone(), count.clone());
    let stable = Rc::new(std::cell::Cell::new((0u32, 0u32)));
    let (s1, s2, s3) = (stable.clone(), stable.clone(), stable.clone());
    // the root scope of the (private, per-thread) root the render runs in, to count the live nodes once the render has finished
    let rootscope: Rc<std::cell::Cell<Option<sycamore_reactive::NodeHandle>>> = Rc::new(std::cell::Cell::new(None));
    let (r1, r2, r3) = (rootscope.clone(), rootscope.clone(), rootscope.clone());
    let mut after: Option<usize> = None;
    let mut ids = Vec::new();
    gates_of(&view, &mut ids);
    let mut senders: HashMap<u32, oneshot::Sender<()>> = HashMap::new();
    let gates: Gates = Rc::new(RefCell::new(HashMap::new()));
    for g in ids {
        let (tx, rx) = oneshot::channel();
        senders.insert(g, tx);
        gates.borrow_mut().insert(g, rx);
    }
    let mut out = Vec::new();
    match mode.as_str() {
        "sync" => {
            // (inside an executor: a resource spawns its fetch even when nobody waits for it)
            let rt = tokio::runtime::Builder::new_current_thread().build().unwrap();
            let local = tokio::task::LocalSet::new();
            let s = local.block_on(&rt, async {
                sycamore_futures::provide_executor_scope(async {
                    render_to_string(move || {
                        c1.set(sycamore_reactive::verif::node_count());
                    r1.set(Some(sycamore_reactive::use_global_scope()));
                        s1.set((use_stable_counter(), use_stable_counter()));
                        prepare_resources(&view, &gates);
                        build(&view, &gates)
                    })
                })
                .await
            });
            out.push(format!("sync {}", hex(&s)));
            after = rootscope.get().map(|h| h.run_in(sycamore_reactive::verif::node_count));
        }
        "blocking" => {
            let rt = tokio::runtime::Builder::new_current_thread().build().unwrap();
            let local = tokio::task::LocalSet::new();
            local.block_on(&rt, async {
                let fut = render_to_string_await_suspense(move || {
                    c2.set(sycamore_reactive::verif::node_count());
                    r2.set(Some(sycamore_reactive::use_global_scope()));
                    s2.set((use_stable_counter(), use_stable_counter()));
                    prepare_resources(&view, &gates);
                    build(&view, &gates)
                });
                futures::pin_mut!(fut);
                let mut done = false;
                for step in 0..=schedule.len() {
                    if step > 0 {
                        if let Some(tx) = senders.remove(&schedule[step - 1]) {
                            let _ = tx.send(());
                        }
                    }
                    if done {
                        continue;
                    }
                    let mut res = None;
                    for _ in 0..32 {
                        if let std::task::Poll::Ready(s) = futures::poll!(&mut fut) {
                            res = Some(s);
                            break;
                        }
                        tokio::task::yield_now().await;
                    }
                    match res {
                        Some(s) => {
                            done = true;
                            out.push(format!("{step} done {}", hex(&s)));
                            settle().await;
                            after = rootscope.get().map(|h| h.run_in(sycamore_reactive::verif::node_count));
                        }
                        None => out.push(format!("{step} pending")),
                    }
                }
            });
        }
        "streaming" => {
            let rt = tokio::runtime::Builder::new_current_thread().build().unwrap();
            let local = tokio::task::LocalSet::new();
            local.block_on(&rt, async {
                let stream = render_to_string_stream(move || {
                    c3.set(sycamore_reactive::verif::node_count());
                    r3.set(Some(sycamore_reactive::use_global_scope()));
                    s3.set((use_stable_counter(), use_stable_counter()));
                    prepare_resources(&view, &gates);
                    build(&view, &gates)
                });
                let mut stream = Box::pin(stream);
                let mut ended = false;
                for step in 0..=schedule.len() {
                    if step > 0 {
                        if let Some(tx) = senders.remove(&schedule[step - 1]) {
                            let _ = tx.send(());
                        }
                    }
                    settle().await;
                    while !ended {
                        match futures::poll!(stream.next()) {
                            std::task::Poll::Ready(Some(s)) => {
                                out.push(format!("{step} chunk {}", hex(&s)));
                                settle().await;
                            }
                            std::task::Poll::Ready(None) => {
                                ended = true;
                                out.push(format!("{step} end"));
                                settle().await;
                                after = rootscope.get().map(|h| h.run_in(sycamore_reactive::verif::node_count));
                            }
                            std::task::Poll::Pending => break,
                        }
                    }
                }
            });
        }
        m => panic!("unsupported mode {m}"),
    }
    (out, count.get(), stable.get(), after)
}
