//! C17 driver: runs the real `RoutePath::match_path` and real derived `Route` enums.
//!
//! stdin, one request per line:
//!   `X`                       followed by a line of patterns (`;`-separated, tokens `Pfoo` `D` `S`
//!                             space-separated) and a line of paths (`;`-separated, segments
//!                             space-separated): prints one line per (pattern, path), pattern-major.
//!   `M <pattern>|<path>`      one pair
//!   `E <k> <url>`             derived enum number k on a URL string
//! stdout: `SOME p:x;s:a,b` | `NONE` | `PANIC`  resp.  `V<i> u:1;t:x` | `NF` | `PANIC`.
use std::io::{self, BufRead, Write};
use std::panic;

use sycamore_router::{Capture, Route, RoutePath, Segment};

include!("enums_gen.rs");

fn parse_pat(s: &str) -> Vec<Segment> {
    s.split(' ')
        .filter(|t| !t.is_empty())
        .map(|t| match t.as_bytes()[0] {
            b'P' => Segment::Param(t[1..].to_string()),
            b'D' => Segment::DynParam,
            b'S' => Segment::DynSegments,
            _ => panic!("bad pattern token {t}"),
        })
        .collect()
}

fn parse_path(s: &str) -> Vec<&str> {
    s.split(' ').filter(|t| !t.is_empty()).collect()
}

fn show_caps(c: &[Capture]) -> String {
    c.iter()
        .map(|c| match c {
            Capture::DynParam(x) => format!("p:{x}"),
            Capture::DynSegments(l) => format!("s:{}", l.join(",")),
        })
        .collect::<Vec<_>>()
        .join(";")
}

fn run_match(pat: &str, path: &str) -> String {
    let segs = parse_pat(pat);
    let path = parse_path(path);
    let r = panic::catch_unwind(|| {
        let rp = RoutePath::new(segs);
        rp.match_path(&path).map(|c| show_caps(&c))
    });
    match r {
        Err(_) => "PANIC".to_string(),
        Ok(None) => "NONE".to_string(),
        Ok(Some(s)) => format!("SOME {s}"),
    }
}

fn main() {
    panic::set_hook(Box::new(|_| {}));
    let stdin = io::stdin();
    let mut lines = stdin.lock().lines();
    let out = io::stdout();
    let mut out = io::BufWriter::new(out.lock());
    while let Some(Ok(line)) = lines.next() {
        if line == "X" {
            let pats = lines.next().unwrap().unwrap();
            let paths = lines.next().unwrap().unwrap();
            let paths: Vec<&str> = paths.split(';').collect();
            for p in pats.split(';') {
                for q in &paths {
                    writeln!(out, "{}", run_match(p, q)).unwrap();
                }
            }
        } else if let Some(rest) = line.strip_prefix("M ") {
            let (p, q) = rest.split_once('|').unwrap();
            writeln!(out, "{}", run_match(p, q)).unwrap();
        } else if let Some(rest) = line.strip_prefix("E ") {
            let (k, url) = rest.split_once(' ').unwrap_or((rest, ""));
            let k: usize = k.parse().unwrap();
            let url = url.to_string();
            let r = panic::catch_unwind(move || run_enum(k, &url));
            writeln!(out, "{}", r.unwrap_or_else(|_| "PANIC".to_string())).unwrap();
        }
    }
}
