//! Driver for the reactive-runtime properties (C01 C02 C03 C04 C10 C11 C16): interprets the
//! scenario language of coq/theories/Reactive/Syntax.v against the real sycamore-reactive API and
//! prints the canonical observation lines of coq/theories/Reactive/Show.v.
//! stdin: one scenario (an s-expression list of top-level statements) per line.
//! stdout: per scenario the observation lines, scenarios separated by a line `==`.
mod sexpr;

use std::cell::{Cell, RefCell};
use std::collections::{BTreeMap, HashMap};
use std::io::{self, BufRead, Write};
use std::panic::{self, AssertUnwindSafe};
use std::rc::Rc;

use sexpr::Sx;
use sycamore_reactive::*;

// ---------------------------------------------------------------------------------- syntax

#[derive(Debug, Clone)]
enum Expr {
    Lit(i64),
    Get(u32),
    GetU(u32),
    Add(Box<Expr>, Box<Expr>),
    Sub(Box<Expr>, Box<Expr>),
    Mul(Box<Expr>, Box<Expr>),
    Lt(Box<Expr>, Box<Expr>),
    Eq(Box<Expr>, Box<Expr>),
    Mod(Box<Expr>, i64),
    Ite(Box<Expr>, Box<Expr>, Box<Expr>),
    Alive(u32),
    CellGet(u32),
}

#[derive(Debug, Clone)]
struct Body {
    on: Option<Vec<u32>>,
    ss: Rc<Vec<Stmt>>,
    ret: Expr,
}

#[derive(Debug)]
enum Stmt {
    Signal(u32, Expr),
    Memo(u32, Rc<Body>),
    Selector(u32, i64, Rc<Body>),
    Effect(u32, Rc<Body>),
    Scope(u32, Rc<Vec<Stmt>>),
    /// provide_context_in_new_scope(value, || body); the new scope is registered under the given name
    ProvideIn(u32, u32, Expr, Rc<Vec<Stmt>>),
    CurScope(u32),
    Set(u32, Expr),
    SetSilent(u32, Expr),
    Dispose(u32),
    Batch(Rc<Vec<Stmt>>),
    Untrack(Rc<Vec<Stmt>>),
    Component(Rc<Vec<Stmt>>),
    OnCleanup(u32, Rc<Vec<Stmt>>),
    Provide(u32, Expr),
    UseCtx(u32),
    RunIn(u32, Rc<Vec<Stmt>>),
    Track(u32),
    If(Expr, Rc<Vec<Stmt>>, Rc<Vec<Stmt>>),
    CellNew(u32, Expr),
    CellSet(u32, Expr),
    Log(Expr),
}

fn p_expr(s: &Sx) -> Expr {
    let l = s.list();
    let b = |i: usize| Box::new(p_expr(&l[i]));
    match l[0].atom() {
        "lit" => Expr::Lit(l[1].num()),
        "get" => Expr::Get(l[1].num()),
        "getu" => Expr::GetU(l[1].num()),
        "add" => Expr::Add(b(1), b(2)),
        "sub" => Expr::Sub(b(1), b(2)),
        "mul" => Expr::Mul(b(1), b(2)),
        "lt" => Expr::Lt(b(1), b(2)),
        "eq" => Expr::Eq(b(1), b(2)),
        "mod" => Expr::Mod(b(1), l[2].num()),
        "ite" => Expr::Ite(b(1), b(2), b(3)),
        "alive" => Expr::Alive(l[1].num()),
        "cell" => Expr::CellGet(l[1].num()),
        x => panic!("bad expr {x}"),
    }
}

fn p_stmts(s: &Sx) -> Rc<Vec<Stmt>> {
    Rc::new(s.list().iter().map(p_stmt).collect())
}

fn p_body(s: &Sx) -> Rc<Body> {
    let l = s.list();
    assert_eq!(l[0].atom(), "body");
    let on = match &l[1] {
        Sx::Atom(_) => None,
        Sx::List(d) => Some(d[1..].iter().map(|x| x.num()).collect()),
    };
    Rc::new(Body { on, ss: p_stmts(&l[2]), ret: p_expr(&l[3]) })
}

fn p_stmt(s: &Sx) -> Stmt {
    let l = s.list();
    match l[0].atom() {
        "signal" => Stmt::Signal(l[1].num(), p_expr(&l[2])),
        "memo" => Stmt::Memo(l[1].num(), p_body(&l[2])),
        "selector" => Stmt::Selector(l[1].num(), l[2].num(), p_body(&l[3])),
        "effect" => Stmt::Effect(l[1].num(), p_body(&l[2])),
        "scope" => Stmt::Scope(l[1].num(), p_stmts(&l[2])),
        "providein" => Stmt::ProvideIn(l[1].num(), l[2].num(), p_expr(&l[3]), p_stmts(&l[4])),
        "curscope" => Stmt::CurScope(l[1].num()),
        "set" => Stmt::Set(l[1].num(), p_expr(&l[2])),
        "setsilent" => Stmt::SetSilent(l[1].num(), p_expr(&l[2])),
        "dispose" => Stmt::Dispose(l[1].num()),
        "batch" => Stmt::Batch(p_stmts(&l[1])),
        "untrack" => Stmt::Untrack(p_stmts(&l[1])),
        "component" => Stmt::Component(p_stmts(&l[1])),
        "oncleanup" => Stmt::OnCleanup(l[1].num(), p_stmts(&l[2])),
        "provide" => Stmt::Provide(l[1].num(), p_expr(&l[2])),
        "usectx" => Stmt::UseCtx(l[1].num()),
        "runin" => Stmt::RunIn(l[1].num(), p_stmts(&l[2])),
        "track" => Stmt::Track(l[1].num()),
        "if" => Stmt::If(p_expr(&l[1]), p_stmts(&l[2]), p_stmts(&l[3])),
        "cellnew" => Stmt::CellNew(l[1].num(), p_expr(&l[2])),
        "cellset" => Stmt::CellSet(l[1].num(), p_expr(&l[2])),
        "log" => Stmt::Log(p_expr(&l[1])),
        x => panic!("bad stmt {x}"),
    }
}

// ---------------------------------------------------------------------------------- environment

#[derive(Clone)]
enum Bind {
    Sig(Signal<i64>),
    Read(ReadSignal<i64>),
    Handle(NodeHandle),
    Cell(Rc<Cell<i64>>),
}

struct EnvNode {
    name: u32,
    bind: Bind,
    next: Env,
}
type Env = Option<Rc<EnvNode>>;

fn bind(env: &Env, name: u32, bind: Bind) -> Env {
    Some(Rc::new(EnvNode { name, bind, next: env.clone() }))
}

fn lookup(env: &Env, name: u32) -> Bind {
    let mut cur = env;
    while let Some(n) = cur {
        if n.name == name {
            return n.bind.clone();
        }
        cur = &n.next;
    }
    panic!("ILL-FORMED: unbound variable {name}");
}

thread_local! {
    static LOG: RefCell<Vec<String>> = const { RefCell::new(Vec::new()) };
    static REGISTRY: RefCell<BTreeMap<u32, Bind>> = const { RefCell::new(BTreeMap::new()) };
    static LAST_PANIC: RefCell<Option<(String, String)>> = const { RefCell::new(None) };
    /// The specification's notion of "reads here subscribe": true inside the function of a memo /
    /// selector / effect, false at top level and inside untrack, component bodies, the callback of
    /// on(..) and cleanup callbacks. Maintained by the driver alone, independently of the runtime.
    static SPEC_TRACKING: Cell<bool> = const { Cell::new(false) };
}

fn with_spec_tracking<T>(on: bool, f: impl FnOnce() -> T) -> T {
    let prev = SPEC_TRACKING.with(|t| t.replace(on));
    let r = f();
    SPEC_TRACKING.with(|t| t.set(prev));
    r
}

fn log(s: String) {
    LOG.with(|l| l.borrow_mut().push(s));
}
fn register(name: u32, b: Bind) {
    REGISTRY.with(|r| r.borrow_mut().insert(name, b));
}

// context "types"
#[derive(Clone)]
struct Ctx<const N: u32>(i64);

fn provide(ty: u32, v: i64) {
    match ty {
        0 => provide_context(Ctx::<0>(v)),
        1 => provide_context(Ctx::<1>(v)),
        2 => provide_context(Ctx::<2>(v)),
        3 => provide_context(Ctx::<3>(v)),
        _ => panic!("ILL-FORMED: context type"),
    }
}
fn try_use(ty: u32) -> Option<i64> {
    match ty {
        0 => try_use_context::<Ctx<0>>().map(|c| c.0),
        1 => try_use_context::<Ctx<1>>().map(|c| c.0),
        2 => try_use_context::<Ctx<2>>().map(|c| c.0),
        3 => try_use_context::<Ctx<3>>().map(|c| c.0),
        _ => panic!("ILL-FORMED: context type"),
    }
}

// ---------------------------------------------------------------------------------- interpreter

thread_local! {
    /// `@F` scenarios: `batch` and `untrack` are entered from inside the foreign root
    static FOREIGN: Cell<Option<RootHandle>> = const { Cell::new(None) };
}

thread_local! {
    static FOREIGN_SIGNAL: Cell<Option<Signal<i64>>> = const { Cell::new(None) };
}

thread_local! {
    /// counts the top-level writes of a scenario (every second one is issued from inside the foreign root)
    static TOPSET: std::cell::Cell<u32> = const { std::cell::Cell::new(0) };
}

fn via_foreign() -> Option<RootHandle> {
    FOREIGN.with(|f| f.get())
}

thread_local! {
    /// rotates through the equivalent forms of the signal API (get / with / get_clone, set / update / replace / set_fn, ...)
    static API_ROT: Cell<u32> = const { Cell::new(0) };
}
fn rot() -> u32 {
    API_ROT.with(|c| {
        let v = c.get();
        c.set(v.wrapping_add(1));
        v
    })
}

fn read(env: &Env, x: u32, tracked: bool) -> i64 {
    // every read form of the API in turn: they must all behave alike (value, tracking)
    let rs: ReadSignal<i64> = match lookup(env, x) {
        Bind::Sig(s) => *s,
        Bind::Read(s) => s,
        _ => panic!("ILL-FORMED: read of a non-signal"),
    };
    let v = match (tracked, rot() % 3) {
        (true, 0) => rs.get(),
        (true, 1) => rs.with(|v| *v),
        (true, _) => rs.get_clone(),
        (false, 0) => rs.get_untracked(),
        (false, 1) => rs.with_untracked(|v| *v),
        (false, _) => rs.get_clone_untracked(),
    };
    let eff = tracked && SPEC_TRACKING.with(|t| t.get());
    log(format!("read {x} {v} {} {}", tracked as u8, eff as u8));
    v
}

fn eval(env: &Env, e: &Expr) -> i64 {
    match e {
        Expr::Lit(z) => *z,
        Expr::Get(x) => read(env, *x, true),
        Expr::GetU(x) => read(env, *x, false),
        Expr::Add(a, b) => {
            let va = eval(env, a);
            va.wrapping_add(eval(env, b))
        }
        Expr::Sub(a, b) => {
            let va = eval(env, a);
            va.wrapping_sub(eval(env, b))
        }
        Expr::Mul(a, b) => {
            let va = eval(env, a);
            va.wrapping_mul(eval(env, b))
        }
        Expr::Lt(a, b) => {
            let va = eval(env, a);
            (va < eval(env, b)) as i64
        }
        Expr::Eq(a, b) => {
            let va = eval(env, a);
            (va == eval(env, b)) as i64
        }
        Expr::Mod(a, k) => eval(env, a).rem_euclid(*k),
        Expr::Ite(c, a, b) => {
            if eval(env, c) != 0 {
                eval(env, a)
            } else {
                eval(env, b)
            }
        }
        Expr::Alive(x) => match lookup(env, *x) {
            Bind::Sig(s) => s.is_alive() as i64,
            Bind::Read(s) => s.is_alive() as i64,
            Bind::Handle(h) => verif::handle_is_alive(h) as i64,
            Bind::Cell(_) => panic!("ILL-FORMED: alive of a cell"),
        },
        Expr::CellGet(c) => match lookup(env, *c) {
            Bind::Cell(c) => c.get(),
            _ => panic!("ILL-FORMED: not a cell"),
        },
    }
}

fn run_body(name: u32, is_effect: bool, env: &Env, body: &Body) -> i64 {
    log(format!("run {name}"));
    let go = || {
        let env1 = exec(env, &body.ss);
        eval(&env1, &body.ret)
    };
    let v = match &body.on {
        None => with_spec_tracking(true, go),
        Some(deps) => {
            // the real `on(deps, f)`: a tuple of trackables (1 to 4 here), each tracked, then `f` run untracked
            let sigs: Vec<ReadSignal<i64>> = deps
                .iter()
                .map(|d| match lookup(env, *d) {
                    Bind::Sig(s) => *s,
                    Bind::Read(s) => s,
                    _ => panic!("ILL-FORMED: on() of a non-signal"),
                })
                .collect();
            for d in deps {
                log(format!("track {d} 1"));
            }
            let (env2, body2) = (env.clone(), body.clone());
            let f = move || {
                with_spec_tracking(false, || {
                    let env1 = exec(&env2, &body2.ss);
                    eval(&env1, &body2.ret)
                })
            };
            match sigs.as_slice() {
                [] => untrack(f),
                [a] => on(*a, f)(),
                [a, b] => on((*a, *b), f)(),
                [a, b, c] => on((*a, *b, *c), f)(),
                [a, b, c, d] => on((*a, *b, *c, *d), f)(),
                _ => panic!("ILL-FORMED: on() with more than 4 dependencies"),
            }
        }
    };
    if is_effect {
        log(format!("eff {name} {v}"));
    }
    log(format!("end {name}"));
    v
}

fn exec(env: &Env, ss: &[Stmt]) -> Env {
    let mut env = env.clone();
    for s in ss {
        env = exec1(&env, s);
    }
    env
}

fn handle_of(b: &Bind) -> NodeHandle {
    match b {
        Bind::Handle(h) => *h,
        _ => panic!("ILL-FORMED: not a scope handle"),
    }
}

fn exec1(env: &Env, s: &Stmt) -> Env {
    match s {
        Stmt::Signal(x, e) => {
            let v = eval(env, e);
            let sig = create_signal(v);
            register(*x, Bind::Sig(sig));
            bind(env, *x, Bind::Sig(sig))
        }
        Stmt::Memo(x, b) => {
            let (x, b, cenv) = (*x, b.clone(), env.clone());
            let m = create_memo(move || run_body(x, false, &cenv, &b));
            register(x, Bind::Read(m));
            bind(env, x, Bind::Read(m))
        }
        Stmt::Selector(x, k, b) => {
            let (x, k, b, cenv) = (*x, *k, b.clone(), env.clone());
            let m = create_selector_with(
                move || run_body(x, false, &cenv, &b),
                move |new: &i64, old: &i64| {
                    if k == 0 {
                        new == old
                    } else {
                        new.rem_euclid(k) == old.rem_euclid(k)
                    }
                },
            );
            register(x, Bind::Read(m));
            bind(env, x, Bind::Read(m))
        }
        Stmt::Effect(x, b) => {
            let (x, b, cenv) = (*x, b.clone(), env.clone());
            let handle: Rc<Cell<Option<NodeHandle>>> = Rc::new(Cell::new(None));
            let h2 = handle.clone();
            create_effect(move || {
                if h2.get().is_none() {
                    let h = use_current_scope();
                    h2.set(Some(h));
                    register(x, Bind::Handle(h));
                }
                run_body(x, true, &cenv, &b);
            });
            let h = handle.get().unwrap();
            bind(env, x, Bind::Handle(h))
        }
        Stmt::Scope(x, ss) => {
            let (ss, cenv) = (ss.clone(), env.clone());
            let x = *x;
            let h = create_child_scope(move || {
                register(x, Bind::Handle(use_current_scope()));
                exec(&cenv, &ss);
            });
            bind(env, x, Bind::Handle(h))
        }
        Stmt::ProvideIn(x, ty, e, ss) => {
            let (ss, cenv) = (ss.clone(), env.clone());
            let (x, ty) = (*x, *ty);
            let v = eval(env, e);
            let h = match ty {
                0 => provide_context_in_new_scope(Ctx::<0>(v), move || {
                    let h = use_current_scope();
                    register(x, Bind::Handle(h));
                    exec(&cenv, &ss);
                    h
                }),
                1 => provide_context_in_new_scope(Ctx::<1>(v), move || {
                    let h = use_current_scope();
                    register(x, Bind::Handle(h));
                    exec(&cenv, &ss);
                    h
                }),
                2 => provide_context_in_new_scope(Ctx::<2>(v), move || {
                    let h = use_current_scope();
                    register(x, Bind::Handle(h));
                    exec(&cenv, &ss);
                    h
                }),
                3 => provide_context_in_new_scope(Ctx::<3>(v), move || {
                    let h = use_current_scope();
                    register(x, Bind::Handle(h));
                    exec(&cenv, &ss);
                    h
                }),
                _ => panic!("ILL-FORMED: context type"),
            };
            bind(env, x, Bind::Handle(h))
        }
        Stmt::CurScope(x) => bind(env, *x, Bind::Handle(use_current_scope())),
        Stmt::Set(x, e) => {
            let v = eval(env, e);
            log(format!("write {x} {v}"));
            // every notifying write form of the API in turn
            match lookup(env, *x) {
                Bind::Sig(s) => match rot() % 4 {
                    0 => s.set(v),
                    1 => s.update(|x| *x = v),
                    2 => {
                        let _ = s.replace(v);
                    }
                    _ => s.set_fn(move |_| v),
                },
                _ => panic!("ILL-FORMED: set of a non-signal"),
            }
            // `@F` scenarios: every write is mirrored into a signal of the foreign root (two apps sharing state): inside a batch the
            // writes then go to the two roots in turn, and inside a computation the foreign root's effect runs nested in it
            if let Some(foreign) = via_foreign() {
                if let Some(fs) = FOREIGN_SIGNAL.with(|f| f.get()) {
                    fs.set(fs.get_untracked() + 1);
                }
                // ... and a scope of the foreign root is created and disposed right here, possibly in the middle of a computation of
                // the scenario's root; its cleanup reads every live signal of the scenario: cleanups run untracked, whoever is running
                let sc = foreign.run_in(|| {
                    create_child_scope(|| {
                        on_cleanup(|| {
                            let sigs: Vec<Signal<i64>> = REGISTRY
                                .try_with(|r| match r.try_borrow() {
                                    Ok(r) => r.values().filter_map(|b| if let Bind::Sig(s) = b { Some(*s) } else { None }).collect(),
                                    Err(_) => Vec::new(),
                                })
                                .unwrap_or_default();
                            for s in sigs {
                                if s.is_alive() {
                                    s.track();
                                }
                            }
                        })
                    })
                });
                sc.dispose();
            }
            env.clone()
        }
        Stmt::SetSilent(x, e) => {
            let v = eval(env, e);
            match lookup(env, *x) {
                Bind::Sig(s) => match rot() % 4 {
                    0 => s.set_silent(v),
                    1 => s.update_silent(|x| *x = v),
                    2 => {
                        let _ = s.replace_silent(v);
                    }
                    _ => s.set_fn_silent(move |_| v),
                },
                _ => panic!("ILL-FORMED: set of a non-signal"),
            }
            env.clone()
        }
        Stmt::Dispose(x) => {
            log(format!("disp {x}"));
            match lookup(env, *x) {
                Bind::Sig(s) => s.dispose(),
                Bind::Read(s) => s.dispose(),
                Bind::Handle(h) => h.dispose(),
                Bind::Cell(_) => panic!("ILL-FORMED: dispose of a cell"),
            }
            log(format!("dispend {x}"));
            env.clone()
        }
        Stmt::Batch(ss) => {
            log("batch 1".to_string());
            match via_foreign() {
                // `batch` is called while ANOTHER root is the current one (a handler of one app batching writes to signals of another):
                // the body goes back to where it was through a handle of the current scope
                Some(foreign) => {
                    let cur = use_current_scope();
                    foreign.run_in(|| {
                        batch(|| {
                            cur.run_in(|| {
                                exec(env, ss);
                                log("batch 0".to_string());
                            })
                        })
                    })
                }
                None => batch(|| {
                    exec(env, ss);
                    log("batch 0".to_string());
                }),
            }
            env.clone()
        }
        Stmt::Untrack(ss) => {
            match via_foreign() {
                // the same for `untrack`: what is read in its dynamic extent must not subscribe, whichever root is current when it starts
                Some(foreign) => {
                    let cur = use_current_scope();
                    foreign.run_in(|| {
                        untrack(|| {
                            cur.run_in(|| with_spec_tracking(false, || exec(env, ss)));
                        })
                    })
                }
                None => untrack(|| {
                    with_spec_tracking(false, || exec(env, ss));
                }),
            }
            env.clone()
        }
        Stmt::Component(ss) => {
            sycamore_core::component_scope(|| {
                with_spec_tracking(false, || exec(env, ss));
            });
            env.clone()
        }
        Stmt::OnCleanup(l, ss) => {
            let (l, ss, cenv) = (*l, ss.clone(), env.clone());
            log(format!("reg {l}"));
            on_cleanup(move || {
                log(format!("cleanup {l}"));
                with_spec_tracking(false, || exec(&cenv, &ss));
            });
            env.clone()
        }
        Stmt::Provide(ty, e) => {
            let v = eval(env, e);
            provide(*ty, v);
            env.clone()
        }
        Stmt::UseCtx(ty) => {
            match try_use(*ty) {
                Some(v) => log(format!("ctx {ty} {v}")),
                None => log(format!("ctx {ty} none")),
            }
            env.clone()
        }
        Stmt::RunIn(x, ss) => {
            let h = handle_of(&lookup(env, *x));
            h.run_in(|| {
                exec(env, ss);
            });
            env.clone()
        }
        Stmt::Track(x) => {
            match lookup(env, *x) {
                Bind::Sig(s) => s.track(),
                Bind::Read(s) => s.track(),
                _ => panic!("ILL-FORMED: track of a non-signal"),
            }
            log(format!("track {x} {}", SPEC_TRACKING.with(|t| t.get()) as u8));
            env.clone()
        }
        Stmt::If(e, a, b) => {
            if eval(env, e) != 0 {
                exec(env, a);
            } else {
                exec(env, b);
            }
            env.clone()
        }
        Stmt::CellNew(c, e) => {
            let v = eval(env, e);
            bind(env, *c, Bind::Cell(Rc::new(Cell::new(v))))
        }
        Stmt::CellSet(c, e) => {
            let v = eval(env, e);
            match lookup(env, *c) {
                Bind::Cell(c) => c.set(v),
                _ => panic!("ILL-FORMED: not a cell"),
            }
            env.clone()
        }
        Stmt::Log(e) => {
            let v = eval(env, e);
            log(format!("log {v}"));
            env.clone()
        }
    }
}

// ---------------------------------------------------------------------------------- observation

fn raw_id(b: &Bind) -> Option<u64> {
    match b {
        Bind::Sig(s) => Some(verif::signal_id(**s)),
        Bind::Read(s) => Some(verif::signal_id(*s)),
        Bind::Handle(h) => Some(verif::handle_id(*h)),
        Bind::Cell(_) => None,
    }
}

fn snapshot() -> String {
    let snap = verif::snapshot();
    let by_id: HashMap<u64, &verif::NodeInfo> = snap.iter().map(|n| (n.id, n)).collect();
    let reg = REGISTRY.with(|r| r.borrow().clone());
    let mut name_of: HashMap<u64, u32> = HashMap::new();
    for (name, b) in &reg {
        if let Some(id) = raw_id(b) {
            name_of.insert(id, *name);
        }
    }
    let mut parts = Vec::new();
    for (name, b) in &reg {
        let id = raw_id(b).unwrap();
        match by_id.get(&id) {
            None => parts.push(format!("{name}:0")),
            Some(n) => {
                let value = if !n.has_value {
                    "-".to_string()
                } else {
                    match b {
                        Bind::Sig(s) => s.get_untracked().to_string(),
                        Bind::Read(s) => s.get_untracked().to_string(),
                        _ => "0".to_string(),
                    }
                };
                let mut known: Vec<u32> = n.dependencies.iter().filter_map(|d| name_of.get(d).copied()).collect();
                known.sort();
                let unknown = n.dependencies.len() - known.len();
                let mut deps: Vec<String> = known.iter().map(|d| d.to_string()).collect();
                deps.extend(std::iter::repeat("?".to_string()).take(unknown));
                let dead = n.dependents.iter().filter(|d| !by_id.contains_key(d)).count();
                parts.push(format!(
                    "{name}:1:{value}:d=[{}]:s={}/{}:{}",
                    deps.join(","),
                    n.dependents.len(),
                    dead,
                    n.dirty as u8
                ));
            }
        }
    }
    // live nodes reachable from the root scope through `children`
    let mut reach = 0usize;
    if let Some(Bind::Handle(root)) = reg.get(&0) {
        let mut todo = vec![verif::handle_id(*root)];
        while let Some(id) = todo.pop() {
            if let Some(n) = by_id.get(&id) {
                reach += 1;
                todo.extend(n.children.iter().copied());
            }
        }
    }
    format!("snap n={} r={} | {}", snap.len(), reach, parts.join(" | "))
}

fn classify(msg: &str, _file: &str) -> &'static str {
    // The accessors raise "signal was disposed" from inside a closure, so the panic location is
    // always in the library; the message alone identifies the user-error classes.
    if msg.starts_with("ILL-FORMED") {
        "ILL-FORMED"
    } else if msg.starts_with("signal was disposed") {
        "user-disposed"
    } else if msg.starts_with("cannot read signal while updating") || msg.starts_with("cannot update signal while reading") {
        "user-updating"
    } else if msg.starts_with("a context with type") {
        "dup-context"
    } else if msg.starts_with("no context of type") {
        "no-context"
    } else if msg.starts_with("cyclic reactive dependency") {
        "cyclic"
    } else {
        "RUNTIME"
    }
}

fn run_scenario(line: &str, out: &mut impl Write) {
    let (line, via) = match line.strip_prefix("@F ") {
        Some(rest) => (rest, true),
        None => (line, false),
    };
    let stmts = p_stmts(&sexpr::parse(line));
    LOG.with(|l| l.borrow_mut().clear());
    API_ROT.with(|c| c.set(0));
    REGISTRY.with(|r| r.borrow_mut().clear());
    SPEC_TRACKING.with(|t| t.set(false));
    let mut lines: Vec<String> = Vec::new();
    let mut env: Env = None;
    // a second, unrelated root on the same thread (another app mounted on the page, the per-thread SSR root): its root scope provides
    // a sentinel for every context type, so that a lookup that ends up in the wrong root is seen
    let foreign = create_root(|| {
        for ty in 0..4 {
            provide(ty, -777);
        }
        // a signal of the foreign root and an effect of the foreign root that reads it -- and, with tracking, every live signal of the
        // scenario's root: a read of another root's signal belongs to no computation of that root, whoever is on the stack
        let fs = create_signal(0i64);
        FOREIGN_SIGNAL.with(|f| f.set(Some(fs)));
        create_effect(move || {
            fs.track();
            let sigs: Vec<Signal<i64>> = REGISTRY
                .try_with(|r| match r.try_borrow() {
                    Ok(r) => r.values().filter_map(|b| if let Bind::Sig(s) = b { Some(*s) } else { None }).collect(),
                    Err(_) => Vec::new(),
                })
                .unwrap_or_default();
            for s in sigs {
                if s.is_alive() {
                    s.track();
                }
            }
        });
    });
    TOPSET.with(|c| c.set(0));
    FOREIGN.with(|f| f.set(if via { Some(foreign) } else { None }));
    let root = create_root(|| {
        let h = use_global_scope();
        register(0, Bind::Handle(h));
        env = bind(&None, 0, Bind::Handle(h));
    });
    for s in stmts.iter() {
        // every top-level statement runs in the root (RootHandle::run_in), except the uses of a handle: a handle may be disposed from
        // anywhere, e.g. from code that runs outside every reactive root, and entered (NodeHandle::run_in) from anywhere, e.g. from
        // code that runs in ANOTHER root
        let r = panic::catch_unwind(AssertUnwindSafe(|| match s {
            Stmt::Dispose(_) => exec1(&env, s),
            Stmt::RunIn(..) => foreign.run_in(|| exec1(&env, s)),
            // a signal may be written from anywhere as well: every other top-level write is made by code that runs in the foreign
            // root (an event handler of another app) -- what the write re-runs and creates belongs to the signal's root all the same
            Stmt::Set(..) if { TOPSET.with(|c| { c.set(c.get() + 1); c.get() % 2 == 0 }) } => foreign.run_in(|| exec1(&env, s)),
            _ => root.run_in(|| exec1(&env, s)),
        }));
        lines.extend(LOG.with(|l| std::mem::take(&mut *l.borrow_mut())));
        match r {
            Ok(e) => {
                env = e;
                lines.push(root.run_in(snapshot));
            }
            Err(_) => {
                let (msg, file) = LAST_PANIC.with(|p| p.borrow_mut().take()).unwrap_or_default();
                let class = classify(&msg, &file);
                if std::env::var("VERIF_DEBUG").is_ok() {
                    eprintln!("panic: {msg} @ {file}");
                }
                lines.push(format!("panic {class}"));
                break;
            }
        }
    }
    // the end of every scenario: the root is disposed through its RootHandle, from outside, and what happens meanwhile is observed
    lines.push("rootdispose".to_string());
    LAST_PANIC.with(|p| *p.borrow_mut() = None);
    let r = panic::catch_unwind(AssertUnwindSafe(|| root.dispose()));
    lines.extend(LOG.with(|l| std::mem::take(&mut *l.borrow_mut())));
    match r {
        Ok(()) => {
            // the root has been re-initialised and can be used again: whatever is created in it now, the handles of the destroyed
            // nodes (the last instance registered under each name) must keep reporting "not alive"
            let stale = panic::catch_unwind(AssertUnwindSafe(|| {
                root.run_in(|| {
                    let n = REGISTRY.with(|r| r.borrow().len()) + 4;
                    for i in 0..n {
                        let s = create_signal(i as i64);
                        let _ = create_memo(move || s.get() + 1);
                    }
                    REGISTRY.with(|r| {
                        r.borrow()
                            .values()
                            .filter(|b| match b {
                                Bind::Sig(s) => s.is_alive(),
                                Bind::Read(s) => s.is_alive(),
                                Bind::Handle(h) => verif::handle_is_alive(*h),
                                Bind::Cell(_) => false,
                            })
                            .count()
                    })
                })
            }));
            let _ = panic::catch_unwind(AssertUnwindSafe(|| root.dispose()));
            match stale {
                Ok(n) => lines.push(format!("rootdisposed ok stale_alive={n}")),
                Err(_) => lines.push("rootdisposed ok stale_alive=panic".to_string()),
            }
        }
        Err(_) => {
            let (msg, file) = LAST_PANIC.with(|p| p.borrow_mut().take()).unwrap_or_default();
            if std::env::var("VERIF_DEBUG").is_ok() {
                eprintln!("panic at root disposal: {msg} @ {file}");
            }
            lines.push(format!("rootdisposed panic {}", classify(&msg, &file)));
        }
    }
    let _ = panic::catch_unwind(AssertUnwindSafe(|| foreign.dispose()));
    for l in lines {
        writeln!(out, "{l}").unwrap();
    }
}

fn main() {
    panic::set_hook(Box::new(|info| {
        let msg = if let Some(s) = info.payload().downcast_ref::<&str>() {
            s.to_string()
        } else if let Some(s) = info.payload().downcast_ref::<String>() {
            s.clone()
        } else {
            String::new()
        };
        let file = info.location().map(|l| format!("{}:{}", l.file(), l.line())).unwrap_or_default();
        LAST_PANIC.with(|p| {
            let mut p = p.borrow_mut();
            if p.is_none() {
                *p = Some((msg, file));
            }
        });
    }));
    let stdin = io::stdin();
    let out = io::stdout();
    let mut out = io::BufWriter::new(out.lock());
    let mut first = true;
    for line in stdin.lock().lines() {
        let line = line.unwrap();
        if line.trim().is_empty() {
            continue;
        }
        if !first {
            writeln!(out, "==").unwrap();
        }
        first = false;
        LAST_PANIC.with(|p| *p.borrow_mut() = None);
        run_scenario(&line, &mut out);
    }
}
