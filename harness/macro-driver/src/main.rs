//! C18 driver. For each line of stdin (the source text of one Rust expression) it
//!  * parses `div { (SRC) }` and `div(class=(SRC), prop:value=(SRC), data-x=(SRC), "q"=(SRC))` with the
//!    real view parser and runs the real `Codegen`, reporting whether the child became
//!    `View::from_dynamic(move || ..)` and whether each attribute value became `move || ..`;
//!  * parses SRC with syn and prints it as a tagged tree (the vocabulary of coq/theories/ViewMacro/Syntax.v).
//! Output: `OK <child> <a1> <a2> <a3> <a4> <tree>` or `ERR <message>`.
use std::io::{self, BufRead, Write};

use quote::ToTokens;
use sycamore_view_parser::codegen::Codegen;
use sycamore_view_parser::ir::{Node, Root};
use syn::{Block, Expr, Pat, Stmt};

fn node(tag: &str, slots: Vec<Vec<String>>) -> String {
    let mut s = format!("({tag}");
    for sl in slots {
        s.push_str(" [");
        s.push_str(&sl.join(" "));
        s.push(']');
    }
    s.push(')');
    s
}

fn is_view(m: &syn::Macro) -> bool {
    m.path.get_ident().is_some_and(|i| i == "view")
}

fn opt_e(e: &Option<Box<Expr>>) -> Vec<String> {
    e.iter().map(|e| expr(e)).collect()
}

fn block(b: &Block) -> String {
    node("TBlock", vec![b.stmts.iter().map(stmt).collect()])
}

fn stmt(s: &Stmt) -> String {
    match s {
        Stmt::Expr(e, _) => node("SExpr", vec![vec![expr(e)]]),
        Stmt::Macro(m) => node(if is_view(&m.mac) { "SMacroView" } else { "SMacroOther" }, vec![]),
        Stmt::Local(l) => node(
            "SLocal",
            vec![
                vec![pat(&l.pat)],
                l.init.iter().map(|i| expr(&i.expr)).collect(),
                l.init.iter().flat_map(|i| i.diverge.iter().map(|(_, e)| expr(e))).collect(),
            ],
        ),
        Stmt::Item(_) => node("SItem", vec![]),
    }
}

fn expr(e: &Expr) -> String {
    match e {
        Expr::Array(x) => node("EArray", vec![x.elems.iter().map(expr).collect()]),
        Expr::Assign(x) => node("EAssign", vec![vec![expr(&x.left)], vec![expr(&x.right)]]),
        Expr::Async(x) => node("EAsync", vec![vec![block(&x.block)]]),
        Expr::Await(x) => node("EAwait", vec![vec![expr(&x.base)]]),
        Expr::Binary(x) => node("EBinary", vec![vec![expr(&x.left)], vec![expr(&x.right)]]),
        Expr::Block(x) => node("EBlock", vec![vec![block(&x.block)]]),
        Expr::Break(x) => node("EBreak", vec![opt_e(&x.expr)]),
        Expr::Call(x) => node("ECall", vec![vec![expr(&x.func)], x.args.iter().map(expr).collect()]),
        Expr::Cast(x) => node("ECast", vec![vec![expr(&x.expr)]]),
        Expr::Closure(x) => node("EClosure", vec![vec![expr(&x.body)]]),
        Expr::Const(x) => node("EConst", vec![vec![block(&x.block)]]),
        Expr::Continue(_) => node("EContinue", vec![]),
        Expr::Field(x) => node("EField", vec![vec![expr(&x.base)]]),
        Expr::ForLoop(x) => node(
            "EForLoop",
            vec![vec![pat(&x.pat)], vec![expr(&x.expr)], vec![block(&x.body)]],
        ),
        Expr::Group(x) => node("EGroup", vec![vec![expr(&x.expr)]]),
        Expr::If(x) => node(
            "EIf",
            vec![
                vec![expr(&x.cond)],
                vec![block(&x.then_branch)],
                x.else_branch.iter().map(|(_, e)| expr(e)).collect(),
            ],
        ),
        Expr::Index(x) => node("EIndex", vec![vec![expr(&x.expr)], vec![expr(&x.index)]]),
        Expr::Infer(_) => node("EInfer", vec![]),
        Expr::Let(x) => node("ELet", vec![vec![pat(&x.pat)], vec![expr(&x.expr)]]),
        Expr::Lit(_) => node("ELit", vec![]),
        Expr::Loop(x) => node("ELoop", vec![vec![block(&x.body)]]),
        Expr::Macro(x) => node(if is_view(&x.mac) { "EMacroView" } else { "EMacroOther" }, vec![]),
        Expr::Match(x) => node(
            "EMatch",
            vec![
                vec![expr(&x.expr)],
                x.arms
                    .iter()
                    .map(|a| {
                        node(
                            "TArm",
                            vec![
                                vec![pat(&a.pat)],
                                a.guard.iter().map(|(_, g)| expr(g)).collect(),
                                vec![expr(&a.body)],
                            ],
                        )
                    })
                    .collect(),
            ],
        ),
        Expr::MethodCall(x) => node(
            "EMethodCall",
            vec![vec![expr(&x.receiver)], x.args.iter().map(expr).collect()],
        ),
        Expr::Paren(x) => node("EParen", vec![vec![expr(&x.expr)]]),
        Expr::Path(_) => node("EPath", vec![]),
        Expr::Range(x) => node("ERange", vec![opt_e(&x.start), opt_e(&x.end)]),
        Expr::RawAddr(x) => node("ERawAddr", vec![vec![expr(&x.expr)]]),
        Expr::Reference(x) => node("EReference", vec![vec![expr(&x.expr)]]),
        Expr::Repeat(x) => node("ERepeat", vec![vec![expr(&x.expr)], vec![expr(&x.len)]]),
        Expr::Return(x) => node("EReturn", vec![opt_e(&x.expr)]),
        Expr::Struct(x) => node(
            "EStruct",
            vec![x.fields.iter().map(|f| expr(&f.expr)).collect(), opt_e(&x.rest)],
        ),
        Expr::Try(x) => node("ETry", vec![vec![expr(&x.expr)]]),
        Expr::TryBlock(x) => node("ETryBlock", vec![vec![block(&x.block)]]),
        Expr::Tuple(x) => node("ETuple", vec![x.elems.iter().map(expr).collect()]),
        Expr::Unary(x) => node("EUnary", vec![vec![expr(&x.expr)]]),
        Expr::Unsafe(x) => node("EUnsafe", vec![vec![block(&x.block)]]),
        Expr::While(x) => node("EWhile", vec![vec![expr(&x.cond)], vec![block(&x.body)]]),
        Expr::Yield(x) => node("EYield", vec![opt_e(&x.expr)]),
        _ => node("EVerbatim", vec![]),
    }
}

fn pat(p: &Pat) -> String {
    match p {
        Pat::Const(x) => node("PConst", vec![vec![block(&x.block)]]),
        Pat::Ident(x) => node(
            if x.by_ref.is_some() && x.mutability.is_some() { "PIdentRefMut" } else { "PIdent" },
            vec![x.subpat.iter().map(|(_, p)| pat(p)).collect()],
        ),
        Pat::Lit(_) => node("PLit", vec![]),
        Pat::Macro(x) => node(if is_view(&x.mac) { "PMacroView" } else { "PMacroOther" }, vec![]),
        Pat::Or(x) => node("POr", vec![x.cases.iter().map(pat).collect()]),
        Pat::Paren(x) => node("PParen", vec![vec![pat(&x.pat)]]),
        Pat::Path(_) => node("PPath", vec![]),
        Pat::Range(x) => node("PRange", vec![opt_e(&x.start), opt_e(&x.end)]),
        Pat::Reference(x) => node(
            if x.mutability.is_some() { "PReferenceMut" } else { "PReference" },
            vec![vec![pat(&x.pat)]],
        ),
        Pat::Rest(_) => node("PRest", vec![]),
        Pat::Slice(x) => node("PSlice", vec![x.elems.iter().map(pat).collect()]),
        Pat::Struct(x) => node("PStruct", vec![x.fields.iter().map(|f| pat(&f.pat)).collect()]),
        Pat::Tuple(x) => node("PTuple", vec![x.elems.iter().map(pat).collect()]),
        Pat::TupleStruct(x) => node("PTupleStruct", vec![x.elems.iter().map(pat).collect()]),
        Pat::Type(x) => node("PType", vec![vec![pat(&x.pat)]]),
        Pat::Wild(_) => node("PWild", vec![]),
        _ => node("PVerbatim", vec![]),
    }
}

fn codegen(view_src: &str) -> Result<String, String> {
    let root: Root = syn::parse_str(view_src).map_err(|e| format!("view parse: {e}"))?;
    Ok(Codegen {}.root(&root).to_string())
}

fn run(src: &str) -> Result<String, String> {
    let e: Expr = syn::parse_str(src).map_err(|e| format!("expr parse: {e}"))?;
    let tree = expr(&e);
    // child position
    let root: Root = syn::parse_str(&format!("div {{ ({src}) }}")).map_err(|e| format!("view parse: {e}"))?;
    // the child of the div is a Dyn node holding exactly this expression
    if let [Node::Tag(t)] = &root.0[..] {
        if let [Node::Dyn(d)] = &t.children.0[..] {
            if d.value.to_token_stream().to_string() != e.to_token_stream().to_string() {
                return Err("child expression differs from the stand-alone parse".into());
            }
        } else {
            return Err("unexpected children".into());
        }
    }
    let child = Codegen {}.root(&root).to_string().contains("from_dynamic");
    let mut flags = vec![child];
    for attr in ["class", "prop : value", "data - x", "\"q\""] {
        let out = codegen(&format!("div({attr}=({src})) {{ }}"))?;
        flags.push(out.contains("move ||"));
    }
    Ok(format!(
        "OK {} {}",
        flags.iter().map(|b| if *b { "1" } else { "0" }).collect::<Vec<_>>().join(" "),
        tree
    ))
}

fn main() {
    let stdin = io::stdin();
    let out = io::stdout();
    let mut out = io::BufWriter::new(out.lock());
    for line in stdin.lock().lines() {
        let line = line.unwrap();
        let r = std::panic::catch_unwind(|| run(&line));
        match r {
            Ok(Ok(s)) => writeln!(out, "{s}").unwrap(),
            Ok(Err(e)) => writeln!(out, "ERR {}", e.replace('\n', " ")).unwrap(),
            Err(_) => writeln!(out, "ERR panic").unwrap(),
        }
    }
}
