//! In-process stand-in for `wasm-bindgen`: a dynamically typed `JsValue` with reference identity for objects,
//! `JsCast` between `#[repr(transparent)]` wrappers, closures, and a microtask queue.
use std::any::Any;
use std::cell::RefCell;
use std::collections::HashMap;
use std::fmt;
use std::rc::Rc;

pub use wasm_bindgen_macro_shim::wasm_bindgen;

pub struct ObjectData {
    pub props: RefCell<HashMap<String, JsValue>>,
    pub native: Box<dyn Any>,
    pub id: u64,
}

#[derive(Clone)]
enum Repr {
    Undefined,
    Null,
    Bool(bool),
    Num(f64),
    Str(Rc<str>),
    Obj(Rc<ObjectData>),
}

#[derive(Clone)]
pub struct JsValue(Repr);

thread_local! {
    static NEXT_OBJ: std::cell::Cell<u64> = const { std::cell::Cell::new(1) };
    static MICROTASKS: RefCell<Vec<JsValue>> = const { RefCell::new(Vec::new()) };
}

impl JsValue {
    pub const UNDEFINED: JsValue = JsValue(Repr::Undefined);
    pub const NULL: JsValue = JsValue(Repr::Null);
    pub fn undefined() -> JsValue { JsValue(Repr::Undefined) }
    pub fn null() -> JsValue { JsValue(Repr::Null) }
    pub fn from_str(s: &str) -> JsValue { JsValue(Repr::Str(s.into())) }
    pub fn from_f64(n: f64) -> JsValue { JsValue(Repr::Num(n)) }
    pub fn from_bool(b: bool) -> JsValue { JsValue(Repr::Bool(b)) }
    pub fn is_undefined(&self) -> bool { matches!(self.0, Repr::Undefined) }
    pub fn is_null(&self) -> bool { matches!(self.0, Repr::Null) }
    pub fn is_object(&self) -> bool { matches!(self.0, Repr::Obj(_)) }
    pub fn as_string(&self) -> Option<String> { if let Repr::Str(s) = &self.0 { Some(s.to_string()) } else { None } }
    pub fn as_f64(&self) -> Option<f64> { if let Repr::Num(n) = &self.0 { Some(*n) } else { None } }
    pub fn as_bool(&self) -> Option<bool> { if let Repr::Bool(b) = &self.0 { Some(*b) } else { None } }
    /// a fresh object wrapping a native payload
    pub fn new_object(native: Box<dyn Any>) -> JsValue {
        let id = NEXT_OBJ.with(|n| { let v = n.get(); n.set(v + 1); v });
        JsValue(Repr::Obj(Rc::new(ObjectData { props: RefCell::new(HashMap::new()), native, id })))
    }
    pub fn object(&self) -> Option<&Rc<ObjectData>> { if let Repr::Obj(o) = &self.0 { Some(o) } else { None } }
    pub fn object_id(&self) -> Option<u64> { self.object().map(|o| o.id) }
    pub fn native<T: 'static>(&self) -> Option<&T> { self.object().and_then(|o| o.native.downcast_ref::<T>()) }
}

impl PartialEq for JsValue {
    fn eq(&self, other: &Self) -> bool {
        match (&self.0, &other.0) {
            (Repr::Undefined, Repr::Undefined) | (Repr::Null, Repr::Null) => true,
            (Repr::Bool(a), Repr::Bool(b)) => a == b,
            (Repr::Num(a), Repr::Num(b)) => a == b,
            (Repr::Str(a), Repr::Str(b)) => a == b,
            (Repr::Obj(a), Repr::Obj(b)) => Rc::ptr_eq(a, b),
            _ => false,
        }
    }
}
impl PartialEq<&str> for JsValue { fn eq(&self, o: &&str) -> bool { matches!(&self.0, Repr::Str(s) if &**s == *o) } }
impl PartialEq<str> for JsValue { fn eq(&self, o: &str) -> bool { matches!(&self.0, Repr::Str(s) if &**s == o) } }
impl PartialEq<String> for JsValue { fn eq(&self, o: &String) -> bool { matches!(&self.0, Repr::Str(s) if &**s == o.as_str()) } }
impl PartialEq<bool> for JsValue { fn eq(&self, o: &bool) -> bool { matches!(&self.0, Repr::Bool(b) if b == o) } }
impl PartialEq<f64> for JsValue { fn eq(&self, o: &f64) -> bool { matches!(&self.0, Repr::Num(n) if n == o) } }

impl fmt::Debug for JsValue {
    fn fmt(&self, f: &mut fmt::Formatter<'_>) -> fmt::Result {
        match &self.0 {
            Repr::Undefined => write!(f, "undefined"),
            Repr::Null => write!(f, "null"),
            Repr::Bool(b) => write!(f, "{b}"),
            Repr::Num(n) => write!(f, "{n}"),
            Repr::Str(s) => write!(f, "{s:?}"),
            Repr::Obj(o) => write!(f, "[object #{}]", o.id),
        }
    }
}

macro_rules! from_num { ($($t:ty),*) => { $( impl From<$t> for JsValue { fn from(x: $t) -> Self { JsValue(Repr::Num(x as f64)) } } )* } }
from_num!(i8, i16, i32, i64, i128, isize, u8, u16, u32, u64, u128, usize, f32, f64);
impl From<bool> for JsValue { fn from(x: bool) -> Self { JsValue(Repr::Bool(x)) } }
impl From<&str> for JsValue { fn from(x: &str) -> Self { JsValue::from_str(x) } }
impl From<String> for JsValue { fn from(x: String) -> Self { JsValue::from_str(&x) } }
impl From<&String> for JsValue { fn from(x: &String) -> Self { JsValue::from_str(x) } }
impl<T: Into<JsValue>> From<Option<T>> for JsValue { fn from(x: Option<T>) -> Self { x.map(Into::into).unwrap_or(JsValue::NULL) } }
impl AsRef<JsValue> for JsValue { fn as_ref(&self) -> &JsValue { self } }

pub trait JsCast: AsRef<JsValue> + Into<JsValue> + Sized {
    fn instanceof(val: &JsValue) -> bool;
    fn unchecked_from_js(val: JsValue) -> Self;
    fn unchecked_from_js_ref(val: &JsValue) -> &Self;
    fn has_type<T: JsCast>(&self) -> bool { T::instanceof(self.as_ref()) }
    fn is_instance_of<T: JsCast>(&self) -> bool { T::instanceof(self.as_ref()) }
    fn dyn_into<T: JsCast>(self) -> Result<T, Self> { if T::instanceof(self.as_ref()) { Ok(self.unchecked_into()) } else { Err(self) } }
    fn dyn_ref<T: JsCast>(&self) -> Option<&T> { if T::instanceof(self.as_ref()) { Some(self.unchecked_ref()) } else { None } }
    fn unchecked_into<T: JsCast>(self) -> T { T::unchecked_from_js(self.into()) }
    fn unchecked_ref<T: JsCast>(&self) -> &T { T::unchecked_from_js_ref(self.as_ref()) }
}
impl JsCast for JsValue {
    fn instanceof(_: &JsValue) -> bool { true }
    fn unchecked_from_js(v: JsValue) -> Self { v }
    fn unchecked_from_js_ref(v: &JsValue) -> &Self { v }
}

pub fn intern(s: &str) -> &str { s }

pub trait UnwrapThrowExt<T>: Sized {
    fn unwrap_throw(self) -> T;
    fn expect_throw(self, message: &str) -> T;
}
impl<T> UnwrapThrowExt<T> for Option<T> {
    #[track_caller] fn unwrap_throw(self) -> T { self.expect("called `Option::unwrap_throw()` on a `None` value") }
    #[track_caller] fn expect_throw(self, m: &str) -> T { self.expect(m) }
}
impl<T, E: fmt::Debug> UnwrapThrowExt<T> for Result<T, E> {
    #[track_caller] fn unwrap_throw(self) -> T { self.expect("called `Result::unwrap_throw()` on an `Err` value") }
    #[track_caller] fn expect_throw(self, m: &str) -> T { self.expect(m) }
}

pub mod closure {
    use super::*;
    /// A Rust closure handed to "JavaScript". The closure is kept alive as long as the `Closure` (or, for
    /// `once_into_js`, until it has been called from the microtask queue).
    pub struct Closure<T: ?Sized> {
        js: JsValue,
        _keep: Option<Box<T>>,
    }
    pub(crate) struct OnceSlot(pub RefCell<Option<Box<dyn FnOnce()>>>);
    impl<T: ?Sized + 'static> Closure<T> {
        pub fn wrap(data: Box<T>) -> Closure<T> { Closure { js: JsValue::new_object(Box::new(())), _keep: Some(data) } }
        pub fn forget(self) { std::mem::forget(self) }
        pub fn into_js_value(self) -> JsValue { let js = self.js.clone(); std::mem::forget(self); js }
    }
    impl Closure<dyn FnMut()> {
        pub fn new<F: FnMut() + 'static>(f: F) -> Self { Closure::wrap(Box::new(f)) }
    }
    impl Closure<dyn FnOnce()> {
        pub fn once_into_js<F: FnOnce() + 'static>(f: F) -> JsValue {
            JsValue::new_object(Box::new(OnceSlot(RefCell::new(Some(Box::new(f))))))
        }
    }
    impl<T: ?Sized> AsRef<JsValue> for Closure<T> { fn as_ref(&self) -> &JsValue { &self.js } }
    impl<T: ?Sized> fmt::Debug for Closure<T> { fn fmt(&self, f: &mut fmt::Formatter<'_>) -> fmt::Result { write!(f, "Closure") } }
}

/// Run every queued microtask (and those they queue) -- the driver's stand-in for the event loop.
pub fn run_microtasks() {
    loop {
        let tasks = MICROTASKS.with(|m| std::mem::take(&mut *m.borrow_mut()));
        if tasks.is_empty() { break; }
        for t in tasks {
            if let Some(slot) = t.native::<closure::OnceSlot>() {
                if let Some(f) = slot.0.borrow_mut().take() { f(); }
            }
        }
    }
}

#[doc(hidden)]
pub mod __rt {
    use super::*;
    pub fn get_prop(o: &JsValue, name: &str) -> JsValue {
        o.object().and_then(|o| o.props.borrow().get(name).cloned()).unwrap_or(JsValue::UNDEFINED)
    }
    pub fn set_prop(o: &JsValue, name: &str, v: JsValue) -> bool {
        match o.object() { Some(o) => { o.props.borrow_mut().insert(name.to_string(), v); true } None => false }
    }
    pub fn call_global(name: &str, arg: &JsValue) {
        match name {
            "queueMicrotask" => MICROTASKS.with(|m| m.borrow_mut().push(arg.clone())),
            _ => panic!("wasm-bindgen shim: unknown global function {name}"),
        }
    }
    pub trait FromJs { fn from_js(v: &JsValue) -> Self; }
    impl FromJs for usize { fn from_js(v: &JsValue) -> Self { v.as_f64().unwrap() as usize } }
    impl<T: FromJs> FromJs for Option<T> { fn from_js(v: &JsValue) -> Self { if v.is_undefined() || v.is_null() { None } else { Some(T::from_js(v)) } } }
    pub fn from_js<T: FromJs>(v: &JsValue) -> T { T::from_js(v) }
    pub fn to_js<T: Into<JsValue>>(v: T) -> JsValue { v.into() }
}

pub mod prelude {
    pub use crate::closure::Closure;
    pub use crate::{wasm_bindgen, JsCast, JsValue, UnwrapThrowExt};
}
pub mod convert {}
