//! `#[cfg_ssr]` / `#[cfg_not_ssr]` with the CLIENT polarity (the real ones, in sycamore-macro, select by
//! target architecture): items marked `cfg_ssr` are dropped, items marked `cfg_not_ssr` are kept.
use proc_macro::TokenStream;

#[proc_macro_attribute]
pub fn cfg_ssr(_args: TokenStream, _input: TokenStream) -> TokenStream {
    TokenStream::new()
}

#[proc_macro_attribute]
pub fn cfg_not_ssr(_args: TokenStream, input: TokenStream) -> TokenStream {
    input
}
