//! In-process stand-in for `js-sys`: only `Reflect::{get, set}` on the shim's objects.
use wasm_bindgen::JsValue;

pub struct Reflect;
impl Reflect {
    pub fn get(target: &JsValue, key: &JsValue) -> Result<JsValue, JsValue> {
        let k = key.as_string().ok_or_else(|| JsValue::from_str("Reflect.get: key is not a string"))?;
        if target.is_object() {
            Ok(wasm_bindgen::__rt::get_prop(target, &k))
        } else {
            Err(JsValue::from_str("Reflect.get called on non-object"))
        }
    }
    pub fn set(target: &JsValue, key: &JsValue, value: &JsValue) -> Result<bool, JsValue> {
        let k = key.as_string().ok_or_else(|| JsValue::from_str("Reflect.set: key is not a string"))?;
        if target.is_object() {
            Ok(wasm_bindgen::__rt::set_prop(target, &k, value.clone()))
        } else {
            Err(JsValue::from_str("Reflect.set called on non-object"))
        }
    }
}

/// `js_sys::Function`: only ever obtained by `unchecked_ref` from a closure
#[repr(transparent)]
#[derive(Clone, Debug, PartialEq)]
pub struct Function(JsValue);
impl AsRef<JsValue> for Function { fn as_ref(&self) -> &JsValue { &self.0 } }
impl From<Function> for JsValue { fn from(x: Function) -> JsValue { x.0 } }
impl wasm_bindgen::JsCast for Function {
    fn instanceof(v: &JsValue) -> bool { v.is_object() }
    fn unchecked_from_js(v: JsValue) -> Self { Function(v) }
    fn unchecked_from_js_ref(v: &JsValue) -> &Self { unsafe { &*(v as *const JsValue as *const Function) } }
}
