//! empty stand-in: sycamore-futures uses wasm-bindgen-futures only on wasm32
