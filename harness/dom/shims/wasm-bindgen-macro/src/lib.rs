//! Minimal `#[wasm_bindgen]` for the two `extern "C"` blocks of sycamore-web:
//! imported types with `extends`, method getters / setters with `js_name`, and free functions with `js_name`.
use proc_macro::TokenStream;
use quote::quote;
use syn::{parse_macro_input, ForeignItem, Item, LitStr};

fn attr_value(attrs: &[syn::Attribute], key: &str) -> Option<String> {
    for a in attrs {
        if !a.path().is_ident("wasm_bindgen") {
            continue;
        }
        let mut found = None;
        let _ = a.parse_nested_meta(|m| {
            if m.path.is_ident(key) {
                if let Ok(v) = m.value() {
                    if let Ok(s) = v.parse::<LitStr>() {
                        found = Some(s.value());
                    } else if let Ok(p) = v.parse::<syn::Path>() {
                        found = Some(quote!(#p).to_string());
                    }
                } else {
                    found = Some(String::new());
                }
            } else if let Ok(v) = m.value() {
                // skip other key = value pairs
                let _ = v.parse::<proc_macro2::TokenStream>();
            }
            Ok(())
        });
        if found.is_some() {
            return found;
        }
    }
    None
}

fn has_flag(attrs: &[syn::Attribute], key: &str) -> bool {
    attr_value(attrs, key).is_some()
}

#[proc_macro_attribute]
pub fn wasm_bindgen(_args: TokenStream, input: TokenStream) -> TokenStream {
    let item = parse_macro_input!(input as Item);
    let Item::ForeignMod(fm) = item else {
        return quote!(compile_error!("wasm_bindgen shim: only extern blocks are supported");).into();
    };
    let mut out = proc_macro2::TokenStream::new();
    for it in fm.items {
        match it {
            ForeignItem::Type(t) => {
                let vis = &t.vis;
                let name = &t.ident;
                let parent: syn::Path = attr_value(&t.attrs, "extends")
                    .map(|s| syn::parse_str(&s).unwrap())
                    .unwrap_or_else(|| syn::parse_str("::wasm_bindgen::JsValue").unwrap());
                out.extend(quote! {
                    #[repr(transparent)]
                    #[derive(Clone, Debug, PartialEq)]
                    #vis struct #name(::wasm_bindgen::JsValue);
                    impl AsRef<::wasm_bindgen::JsValue> for #name { fn as_ref(&self) -> &::wasm_bindgen::JsValue { &self.0 } }
                    impl From<#name> for ::wasm_bindgen::JsValue { fn from(x: #name) -> Self { x.0 } }
                    impl ::wasm_bindgen::JsCast for #name {
                        fn instanceof(_: &::wasm_bindgen::JsValue) -> bool { true }
                        fn unchecked_from_js(v: ::wasm_bindgen::JsValue) -> Self { #name(v) }
                        fn unchecked_from_js_ref(v: &::wasm_bindgen::JsValue) -> &Self { unsafe { &*(v as *const ::wasm_bindgen::JsValue as *const #name) } }
                    }
                    impl ::std::ops::Deref for #name {
                        type Target = #parent;
                        fn deref(&self) -> &#parent { ::wasm_bindgen::JsCast::unchecked_ref(&self.0) }
                    }
                });
            }
            ForeignItem::Fn(f) => {
                let vis = &f.vis;
                let name = &f.sig.ident;
                let js_name = attr_value(&f.attrs, "js_name").unwrap_or_else(|| name.to_string());
                let inputs: Vec<_> = f.sig.inputs.iter().collect();
                let ret = &f.sig.output;
                if has_flag(&f.attrs, "method") {
                    // first input is `this: &T`
                    let syn::FnArg::Typed(this) = inputs[0] else { panic!("bad method") };
                    let syn::Type::Reference(r) = &*this.ty else { panic!("method receiver must be a reference") };
                    let ty = &r.elem;
                    if has_flag(&f.attrs, "getter") {
                        out.extend(quote! {
                            impl #ty { #vis fn #name(&self) #ret {
                                ::wasm_bindgen::__rt::from_js(&::wasm_bindgen::__rt::get_prop(self.as_ref(), #js_name))
                            } }
                        });
                    } else if has_flag(&f.attrs, "setter") {
                        let syn::FnArg::Typed(arg) = inputs[1] else { panic!("bad setter") };
                        let aty = &arg.ty;
                        out.extend(quote! {
                            impl #ty { #vis fn #name(&self, value: #aty) {
                                ::wasm_bindgen::__rt::set_prop(self.as_ref(), #js_name, ::wasm_bindgen::__rt::to_js(value));
                            } }
                        });
                    } else {
                        panic!("wasm_bindgen shim: plain methods are not supported");
                    }
                } else {
                    // a global function taking one &JsValue
                    out.extend(quote! {
                        #vis fn #name(f: &::wasm_bindgen::JsValue) { ::wasm_bindgen::__rt::call_global(#js_name, f); }
                    });
                }
            }
            _ => {}
        }
    }
    out.into()
}
