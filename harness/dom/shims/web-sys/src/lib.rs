//! In-process DOM standing in for `web-sys`: exactly the API surface sycamore-web's client back end uses.
//! Nodes are `JsValue` objects whose native payload is `NodeData`; node identity is object identity.
//! Tree mutations follow the WHATWG DOM algorithms for append / insertBefore / removeChild / replaceChild,
//! including the flattening of DocumentFragments. Every mutation is appended to a log so that "untouched"
//! can be observed.
use std::cell::RefCell;
use std::ops::Deref;

use wasm_bindgen::{JsCast, JsValue};

#[derive(Debug, Clone, PartialEq)]
pub enum Kind {
    Element { tag: String, ns: Option<String> },
    Text,
    Comment,
    Fragment,
    Document,
    Window,
}

pub struct NodeData {
    pub kind: Kind,
    pub data: RefCell<String>,                          // text / comment data
    pub attrs: RefCell<Vec<(String, String)>>,
    pub children: RefCell<Vec<Node>>,
    pub parent: RefCell<Option<Node>>,
    pub listeners: RefCell<Vec<(String, JsValue)>>,
}

thread_local! {
    static MUTATIONS: RefCell<Vec<(String, u64, u64)>> = const { RefCell::new(Vec::new()) };
    static WARNINGS: RefCell<Vec<String>> = const { RefCell::new(Vec::new()) };
    static WINDOW: Window = Window(new_node(Kind::Window));
    static DOCUMENT: Document = {
        let d = Document(new_node(Kind::Document));
        let body = d.create_element("body").unwrap();
        Node(d.0.clone()).data().children.borrow_mut().push(Node(body.0.clone()));
        *Node(body.0.clone()).data().parent.borrow_mut() = Some(Node(d.0.clone()));
        d
    };
}

fn log_mut(op: &str, node: &Node, parent: &Node) {
    MUTATIONS.with(|m| m.borrow_mut().push((op.to_string(), node.id(), parent.id())));
}
/// take the mutation log: (operation, node id, parent id)
pub fn take_mutations() -> Vec<(String, u64, u64)> {
    MUTATIONS.with(|m| std::mem::take(&mut *m.borrow_mut()))
}
pub fn take_warnings() -> Vec<String> {
    WARNINGS.with(|m| std::mem::take(&mut *m.borrow_mut()))
}

fn new_node(kind: Kind) -> JsValue {
    JsValue::new_object(Box::new(NodeData {
        kind,
        data: RefCell::new(String::new()),
        attrs: RefCell::new(Vec::new()),
        children: RefCell::new(Vec::new()),
        parent: RefCell::new(None),
        listeners: RefCell::new(Vec::new()),
    }))
}

macro_rules! js_type {
    ($name:ident : $parent:ty, $pred:expr) => {
        #[repr(transparent)]
        #[derive(Clone, PartialEq)]
        pub struct $name(JsValue);
        impl Eq for $name {}
        impl AsRef<JsValue> for $name { fn as_ref(&self) -> &JsValue { &self.0 } }
        impl From<$name> for JsValue { fn from(x: $name) -> JsValue { x.0 } }
        impl JsCast for $name {
            fn instanceof(v: &JsValue) -> bool { let f: fn(&JsValue) -> bool = $pred; f(v) }
            fn unchecked_from_js(v: JsValue) -> Self { $name(v) }
            fn unchecked_from_js_ref(v: &JsValue) -> &Self { unsafe { &*(v as *const JsValue as *const $name) } }
        }
        impl Deref for $name {
            type Target = $parent;
            fn deref(&self) -> &$parent { <$parent as JsCast>::unchecked_from_js_ref(&self.0) }
        }
        impl std::fmt::Debug for $name {
            fn fmt(&self, f: &mut std::fmt::Formatter<'_>) -> std::fmt::Result { write!(f, "{}({:?})", stringify!($name), self.0) }
        }
    };
}
macro_rules! upcast {
    ($from:ident => $($to:ident),*) => { $( impl From<$from> for $to { fn from(x: $from) -> $to { $to(x.0) } } )* };
}

fn kind_of(v: &JsValue) -> Option<Kind> { v.native::<NodeData>().map(|d| d.kind.clone()) }

js_type!(EventTarget: JsValue, |v| v.is_object());
js_type!(Node: EventTarget, |v| matches!(kind_of(v), Some(k) if k != Kind::Window));
js_type!(Element: Node, |v| matches!(kind_of(v), Some(Kind::Element { .. })));
js_type!(HtmlElement: Element, |v| matches!(kind_of(v), Some(Kind::Element { .. })));
js_type!(Text: Node, |v| matches!(kind_of(v), Some(Kind::Text)));
js_type!(Comment: Node, |v| matches!(kind_of(v), Some(Kind::Comment)));
js_type!(DocumentFragment: Node, |v| matches!(kind_of(v), Some(Kind::Fragment)));
js_type!(Document: Node, |v| matches!(kind_of(v), Some(Kind::Document)));
js_type!(Window: EventTarget, |v| matches!(kind_of(v), Some(Kind::Window)));
upcast!(Node => EventTarget);
upcast!(Element => Node, EventTarget);
upcast!(HtmlElement => Element, Node, EventTarget);
upcast!(Text => Node, EventTarget);
upcast!(Comment => Node, EventTarget);
upcast!(DocumentFragment => Node, EventTarget);
upcast!(Document => Node, EventTarget);
upcast!(Window => EventTarget);

impl EventTarget {
    pub fn add_event_listener_with_callback(&self, name: &str, cb: &js_sys::Function) -> Result<(), JsValue> {
        if let Some(d) = self.0.native::<NodeData>() {
            d.listeners.borrow_mut().push((name.to_string(), cb.as_ref().clone()));
        }
        Ok(())
    }
    pub fn remove_event_listener_with_callback(&self, _name: &str, _cb: &js_sys::Function) -> Result<(), JsValue> { Ok(()) }
}

#[derive(Debug)]
pub struct DomException(pub String);
fn err(name: &str) -> JsValue { JsValue::from_str(name) }

impl Node {
    pub const ELEMENT_NODE: u16 = 1;
    pub const TEXT_NODE: u16 = 3;
    pub const COMMENT_NODE: u16 = 8;
    pub const DOCUMENT_NODE: u16 = 9;
    pub const DOCUMENT_FRAGMENT_NODE: u16 = 11;

    pub fn data(&self) -> &NodeData { self.0.native::<NodeData>().expect("not a DOM node") }
    pub fn id(&self) -> u64 { self.0.object_id().unwrap() }
    pub fn node_type(&self) -> u16 {
        match self.data().kind {
            Kind::Element { .. } => Self::ELEMENT_NODE,
            Kind::Text => Self::TEXT_NODE,
            Kind::Comment => Self::COMMENT_NODE,
            Kind::Document | Kind::Window => Self::DOCUMENT_NODE,
            Kind::Fragment => Self::DOCUMENT_FRAGMENT_NODE,
        }
    }
    pub fn parent_node(&self) -> Option<Node> { self.data().parent.borrow().clone() }
    pub fn child_nodes_vec(&self) -> Vec<Node> { self.data().children.borrow().clone() }
    pub fn first_child(&self) -> Option<Node> { self.data().children.borrow().first().cloned() }
    pub fn last_child(&self) -> Option<Node> { self.data().children.borrow().last().cloned() }
    fn index_in_parent(&self) -> Option<(Node, usize)> {
        let p = self.parent_node()?;
        let i = p.data().children.borrow().iter().position(|c| c == self)?;
        Some((p, i))
    }
    pub fn next_sibling(&self) -> Option<Node> {
        let (p, i) = self.index_in_parent()?;
        let r = p.data().children.borrow().get(i + 1).cloned();
        r
    }
    pub fn previous_sibling(&self) -> Option<Node> {
        let (p, i) = self.index_in_parent()?;
        if i == 0 { None } else { p.data().children.borrow().get(i - 1).cloned() }
    }
    pub fn text_content(&self) -> Option<String> {
        match self.data().kind {
            Kind::Text | Kind::Comment => Some(self.data().data.borrow().clone()),
            Kind::Document | Kind::Window => None,
            _ => {
                let mut s = String::new();
                fn walk(n: &Node, s: &mut String) {
                    for c in n.data().children.borrow().iter() {
                        match c.data().kind {
                            Kind::Text => s.push_str(&c.data().data.borrow()),
                            Kind::Comment => {}
                            _ => walk(c, s),
                        }
                    }
                }
                walk(self, &mut s);
                Some(s)
            }
        }
    }
    pub fn set_text_content(&self, value: Option<&str>) {
        match self.data().kind {
            Kind::Text | Kind::Comment => {
                *self.data().data.borrow_mut() = value.unwrap_or("").to_string();
                if let Some(p) = self.parent_node() { log_mut("data", self, &p); } else { log_mut("data", self, self); }
            }
            Kind::Element { .. } | Kind::Fragment => {
                for c in self.child_nodes_vec() { let _ = self.remove_child(&c); }
                if let Some(v) = value {
                    if !v.is_empty() {
                        let t = DOCUMENT.with(|d| d.create_text_node(v));
                        let _ = self.append_child(&t);
                    }
                }
            }
            _ => {}
        }
    }

    fn is_inclusive_ancestor_of(&self, other: &Node) -> bool {
        let mut cur = Some(other.clone());
        while let Some(c) = cur {
            if &c == self { return true; }
            cur = c.parent_node();
        }
        false
    }
    fn detach(&self) {
        if let Some((p, i)) = self.index_in_parent() {
            p.data().children.borrow_mut().remove(i);
            *self.data().parent.borrow_mut() = None;
            log_mut("remove", self, &p);
        }
    }
    /// the "pre-insert" algorithm
    pub fn insert_before(&self, node: &Node, child: Option<&Node>) -> Result<Node, JsValue> {
        if node.is_inclusive_ancestor_of(self) { return Err(err("HierarchyRequestError")); }
        if let Some(c) = child {
            if c.parent_node().as_ref() != Some(self) { return Err(err("NotFoundError")); }
        }
        // if the reference child is the node itself, the reference becomes its next sibling
        let mut reference = child.cloned();
        if reference.as_ref() == Some(node) { reference = node.next_sibling(); }
        let nodes: Vec<Node> = if node.data().kind == Kind::Fragment {
            let v = node.child_nodes_vec();
            for c in &v { c.detach(); }
            v
        } else {
            node.detach();
            vec![node.clone()]
        };
        let mut idx = match &reference {
            Some(r) => self.data().children.borrow().iter().position(|c| c == r).ok_or_else(|| err("NotFoundError"))?,
            None => self.data().children.borrow().len(),
        };
        for n in nodes {
            self.data().children.borrow_mut().insert(idx, n.clone());
            *n.data().parent.borrow_mut() = Some(self.clone());
            log_mut("insert", &n, self);
            idx += 1;
        }
        Ok(node.clone())
    }
    pub fn append_child(&self, node: &Node) -> Result<Node, JsValue> { self.insert_before(node, None) }
    pub fn remove_child(&self, child: &Node) -> Result<Node, JsValue> {
        if child.parent_node().as_ref() != Some(self) { return Err(err("NotFoundError")); }
        child.detach();
        Ok(child.clone())
    }
    pub fn replace_child(&self, node: &Node, child: &Node) -> Result<Node, JsValue> {
        if node.is_inclusive_ancestor_of(self) { return Err(err("HierarchyRequestError")); }
        if child.parent_node().as_ref() != Some(self) { return Err(err("NotFoundError")); }
        let mut reference = child.next_sibling();
        if reference.as_ref() == Some(node) { reference = node.next_sibling(); }
        if node == child { return Ok(child.clone()); }
        child.detach();
        self.insert_before(node, reference.as_ref())?;
        Ok(child.clone())
    }
    pub fn contains(&self, other: Option<&Node>) -> bool { other.map_or(false, |o| self.is_inclusive_ancestor_of(o)) }
    pub fn is_same_node(&self, other: Option<&Node>) -> bool { other.map_or(false, |o| self.id() == o.id()) }
    pub fn is_connected(&self) -> bool { DOCUMENT.with(|d| Node(d.0.clone()).is_inclusive_ancestor_of(self)) }
}

pub const VOID_ELEMENTS: [&str; 14] = ["area", "base", "br", "col", "embed", "hr", "img", "input", "link", "meta", "param", "source", "track", "wbr"];

impl Element {
    fn tag(&self) -> (String, Option<String>) {
        match &self.data().kind { Kind::Element { tag, ns } => (tag.clone(), ns.clone()), _ => panic!("not an element") }
    }
    /// HTML elements report their tag name in upper case, elements in other namespaces as written
    pub fn tag_name(&self) -> String {
        let (tag, ns) = self.tag();
        if ns.is_none() { tag.to_uppercase() } else { tag }
    }
    pub fn local_name(&self) -> String { self.tag().0 }
    pub fn set_attribute(&self, name: &str, value: &str) -> Result<(), JsValue> {
        if name.is_empty() || name.contains(|c: char| c.is_whitespace() || c == '>' || c == '/' || c == '=') {
            return Err(err("InvalidCharacterError"));
        }
        let mut attrs = self.data().attrs.borrow_mut();
        if let Some(a) = attrs.iter_mut().find(|(n, _)| n == name) { a.1 = value.to_string(); } else { attrs.push((name.to_string(), value.to_string())); }
        drop(attrs);
        log_mut("attr", self, self);
        Ok(())
    }
    pub fn remove_attribute(&self, name: &str) -> Result<(), JsValue> {
        self.data().attrs.borrow_mut().retain(|(n, _)| n != name);
        log_mut("attr", self, self);
        Ok(())
    }
    pub fn get_attribute(&self, name: &str) -> Option<String> {
        self.data().attrs.borrow().iter().find(|(n, _)| n == name).map(|(_, v)| v.clone())
    }
    pub fn has_attribute(&self, name: &str) -> bool { self.get_attribute(name).is_some() }
    pub fn query_selector_all(&self, selector: &str) -> Result<NodeList, JsValue> {
        let attr = selector.strip_prefix('[').and_then(|s| s.strip_suffix(']')).ok_or_else(|| err("SyntaxError: only [attr] selectors are supported"))?;
        let mut out = Vec::new();
        fn walk(n: &Node, attr: &str, out: &mut Vec<Node>) {
            for c in n.data().children.borrow().iter() {
                if matches!(c.data().kind, Kind::Element { .. }) {
                    if c.data().attrs.borrow().iter().any(|(a, _)| a == attr) { out.push(c.clone()); }
                    walk(c, attr, out);
                }
            }
        }
        walk(self, attr, &mut out);
        Ok(NodeList(out))
    }
    pub fn query_selector(&self, selector: &str) -> Result<Option<Element>, JsValue> {
        // `#id` and `tag` selectors
        let mut found = None;
        fn walk(n: &Node, sel: &str, found: &mut Option<Element>) {
            for c in n.data().children.borrow().iter() {
                if found.is_some() { return; }
                if let Kind::Element { tag, .. } = &c.data().kind {
                    let e = Element(c.0.clone());
                    let hit = if let Some(id) = sel.strip_prefix('#') { e.get_attribute("id").as_deref() == Some(id) } else { tag == sel };
                    if hit { *found = Some(e); return; }
                    walk(c, sel, found);
                }
            }
        }
        walk(self, selector, &mut found);
        Ok(found)
    }
    pub fn set_inner_html(&self, html: &str) {
        for c in self.child_nodes_vec() { let _ = self.remove_child(&c); }
        parse_html_into(self, html);
    }
    pub fn inner_html(&self) -> String { let mut s = String::new(); for c in self.child_nodes_vec() { serialize(&c, &mut s, false); } s }
    pub fn outer_html(&self) -> String { let mut s = String::new(); serialize(self, &mut s, false); s }
}

pub struct NodeList(Vec<Node>);
impl NodeList {
    pub fn length(&self) -> u32 { self.0.len() as u32 }
    pub fn get(&self, i: u32) -> Option<Node> { self.0.get(i as usize).cloned() }
    pub fn item(&self, i: u32) -> Option<Node> { self.get(i) }
}

impl Document {
    pub fn create_element(&self, tag: &str) -> Result<Element, JsValue> {
        if tag.is_empty() || tag.contains(|c: char| c.is_whitespace() || c == '>' || c == '<') { return Err(err("InvalidCharacterError")); }
        Ok(Element(new_node(Kind::Element { tag: tag.to_ascii_lowercase(), ns: None })))
    }
    pub fn create_element_ns(&self, ns: Option<&str>, tag: &str) -> Result<Element, JsValue> {
        Ok(Element(new_node(Kind::Element { tag: tag.to_string(), ns: ns.map(|s| s.to_string()) })))
    }
    pub fn create_text_node(&self, data: &str) -> Text {
        let n = new_node(Kind::Text);
        *n.native::<NodeData>().unwrap().data.borrow_mut() = data.to_string();
        Text(n)
    }
    pub fn create_comment(&self, data: &str) -> Comment {
        let n = new_node(Kind::Comment);
        *n.native::<NodeData>().unwrap().data.borrow_mut() = data.to_string();
        Comment(n)
    }
    pub fn create_document_fragment(&self) -> DocumentFragment { DocumentFragment(new_node(Kind::Fragment)) }
    pub fn body(&self) -> Option<HtmlElement> { self.first_child().map(|b| HtmlElement(b.0)) }
    pub fn query_selector(&self, selector: &str) -> Result<Option<Element>, JsValue> {
        Element(self.0.clone()).query_selector(selector)
    }
    pub fn get_element_by_id(&self, id: &str) -> Option<Element> { self.query_selector(&format!("#{id}")).unwrap() }
}

impl Window {
    pub fn document(&self) -> Option<Document> { Some(DOCUMENT.with(|d| d.clone())) }
}
pub fn window() -> Option<Window> { Some(WINDOW.with(|w| w.clone())) }

pub mod console {
    use super::*;
    pub fn log_1(v: &JsValue) { if std::env::var("VERIF_DEBUG").is_ok() { eprintln!("console.log: {v:?}"); } }
    pub fn warn_1(v: &JsValue) { WARNINGS.with(|w| w.borrow_mut().push(v.as_string().unwrap_or_default())); }
    pub fn error_1(v: &JsValue) { WARNINGS.with(|w| w.borrow_mut().push(format!("error: {}", v.as_string().unwrap_or_default()))); }
}

// events: only as types
js_type!(Event: JsValue, |v| v.is_object());
impl Event {
    pub fn current_target(&self) -> Option<EventTarget> { None }
    pub fn target(&self) -> Option<EventTarget> { None }
    pub fn prevent_default(&self) {}
}
macro_rules! event_types { ($($name:ident),*) => { $( js_type!($name: Event, |v| v.is_object()); upcast!($name => Event); )* } }
event_types!(AnimationEvent, BeforeUnloadEvent, CompositionEvent, DeviceMotionEvent, DeviceOrientationEvent, DragEvent,
    ErrorEvent, FocusEvent, GamepadEvent, HashChangeEvent, InputEvent, KeyboardEvent, MessageEvent, MouseEvent,
    PageTransitionEvent, PointerEvent, PopStateEvent, ProgressEvent, PromiseRejectionEvent, SecurityPolicyViolationEvent,
    StorageEvent, SubmitEvent, TouchEvent, TransitionEvent, UiEvent, WheelEvent);

// ------------------------------------------------------------------------------------------------------------
// serialisation and parsing (the HTML subset a server render produces)

fn escape(s: &str, attr: bool, out: &mut String) {
    for c in s.chars() {
        match c {
            '&' => out.push_str("&amp;"),
            '<' => out.push_str("&lt;"),
            '>' => out.push_str("&gt;"),
            '"' if attr => out.push_str("&quot;"),
            c => out.push(c),
        }
    }
}

/// `with_ids`: prefix every node with its identity token `#<id>` (used to observe node identity)
pub fn serialize(n: &Node, out: &mut String, with_ids: bool) {
    let idp = if with_ids { format!("#{}", n.id()) } else { String::new() };
    match &n.data().kind {
        Kind::Element { tag, .. } => {
            out.push('<');
            out.push_str(tag);
            out.push_str(&idp);
            for (k, v) in n.data().attrs.borrow().iter() {
                out.push(' ');
                out.push_str(k);
                out.push_str("=\"");
                escape(v, true, out);
                out.push('"');
            }
            out.push('>');
            if VOID_ELEMENTS.contains(&tag.as_str()) { return; }
            for c in n.data().children.borrow().iter() { serialize(c, out, with_ids); }
            out.push_str("</");
            out.push_str(tag);
            out.push('>');
        }
        Kind::Text => { out.push_str(&idp); escape(&n.data().data.borrow(), false, out); }
        Kind::Comment => { out.push_str("<!--"); out.push_str(&idp); out.push_str(&n.data().data.borrow()); out.push_str("-->"); }
        Kind::Fragment | Kind::Document | Kind::Window => { for c in n.data().children.borrow().iter() { serialize(c, out, with_ids); } }
    }
}

fn decode(s: &str) -> String {
    let mut out = String::new();
    let mut rest = s;
    while let Some(i) = rest.find('&') {
        out.push_str(&rest[..i]);
        rest = &rest[i..];
        let mut done = false;
        for (e, c) in [("&amp;", '&'), ("&lt;", '<'), ("&gt;", '>'), ("&quot;", '"')] {
            if rest.starts_with(e) { out.push(c); rest = &rest[e.len()..]; done = true; break; }
        }
        if !done { out.push('&'); rest = &rest[1..]; }
    }
    out.push_str(rest);
    out
}

/// a tokenizer + tree builder for the subset of HTML that `render_to_string` emits
pub fn parse_html_into(parent: &Element, html: &str) {
    let doc = DOCUMENT.with(|d| d.clone());
    let mut stack: Vec<Node> = vec![Node(parent.0.clone())];
    let b = html.as_bytes();
    let mut i = 0;
    while i < b.len() {
        if b[i] == b'<' {
            if html[i..].starts_with("<!--") {
                let body = &html[i + 4..];
                let (data, adv) = if body.starts_with('>') { ("", 5) } else if body.starts_with("->") { ("", 6) } else {
                    let end = body.find("-->").unwrap_or(body.len());
                    (&body[..end], 4 + end + 3)
                };
                let c = doc.create_comment(data);
                stack.last().unwrap().append_child(&c).unwrap();
                i += adv;
            } else if html[i..].starts_with("</") {
                let end = html[i..].find('>').map(|e| i + e).unwrap_or(b.len());
                let name = html[i + 2..end].trim().to_ascii_lowercase();
                if let Some(pos) = stack.iter().rposition(|n| matches!(&n.data().kind, Kind::Element { tag, .. } if *tag == name)) {
                    if pos > 0 { stack.truncate(pos); }
                }
                i = end + 1;
            } else {
                // start tag
                let mut j = i + 1;
                while j < b.len() && !matches!(b[j], b' ' | b'>' | b'/') { j += 1; }
                let name = &html[i + 1..j];
                let el = doc.create_element(name).unwrap();
                loop {
                    while j < b.len() && b[j] == b' ' { j += 1; }
                    if j >= b.len() { break; }
                    if b[j] == b'>' { j += 1; break; }
                    if b[j] == b'/' { j += 1; continue; }
                    let s = j;
                    while j < b.len() && !matches!(b[j], b' ' | b'>' | b'=' | b'/') { j += 1; }
                    let an = &html[s..j];
                    if j < b.len() && b[j] == b'=' {
                        j += 1;
                        if j < b.len() && b[j] == b'"' {
                            let s2 = j + 1;
                            let e2 = html[s2..].find('"').map(|e| s2 + e).unwrap_or(b.len());
                            el.set_attribute(an, &decode(&html[s2..e2])).unwrap();
                            j = e2 + 1;
                        } else {
                            let s2 = j;
                            while j < b.len() && !matches!(b[j], b' ' | b'>') { j += 1; }
                            el.set_attribute(an, &decode(&html[s2..j])).unwrap();
                        }
                    } else if !an.is_empty() {
                        el.set_attribute(an, "").unwrap();
                    }
                }
                stack.last().unwrap().append_child(&el).unwrap();
                if !VOID_ELEMENTS.contains(&name.to_ascii_lowercase().as_str()) { stack.push(Node(el.0.clone())); }
                i = j;
            }
        } else {
            let end = html[i..].find('<').map(|e| i + e).unwrap_or(b.len());
            let t = doc.create_text_node(&decode(&html[i..end]));
            stack.last().unwrap().append_child(&t).unwrap();
            i = end;
        }
    }
    take_mutations();
}
