//! C05 / C06 / C09 driver: sycamore-web's client (DOM + hydration) back end, compiled verbatim from /repo through
//! the generated crate root (src/lib.rs), running against the in-process DOM of harness/dom/shims.
//!
//! stdin, one scenario per line:
//!   (client SIGNALS VIEW (OP ...))            render into a fresh mount point, then apply the ops one by one
//!   (hydrate xHTML SIGNALS VIEW (OP ...))     parse the server HTML into the mount point, hydrate, apply the ops
//!   (reconcile (PRE) (A) (B) (POST))          node ids; children = PRE ++ A ++ POST, then reconcile_fragments(A, B)
//! stdout per scenario, one line per state (state 0 = after render / hydration):
//!   `dom <hex of serialisation with identity tokens> ; fresh <hex of a fresh client render of the current state>
//!        ; mut <op:node:parent ...> ; warn <n>`   or `PANIC <message hex>`; scenarios are separated by `==`.
#[path = "../../../common/sexpr.rs"]
mod sexpr;

use std::io::{self, BufRead, Write};
use std::panic::{self, AssertUnwindSafe};

use sexpr::Sx;
use sycamore_reactive::*;
use sycamore_web_dom::wasm_bindgen::JsCast;
use sycamore_web_dom::*;

mod viewspec {
    use super::sexpr::Sx;
    use sycamore_core::Props;
    use sycamore_reactive::*;
    use sycamore_web_dom::*;
    include!("../../../common/viewspec.rs");
}
use viewspec::*;

thread_local! {
    static LAST_PANIC: std::cell::RefCell<String> = const { std::cell::RefCell::new(String::new()) };
    static LAST_PRE: std::cell::RefCell<String> = const { std::cell::RefCell::new(String::new()) };
}

fn new_mount() -> web_sys::Element {
    let doc = document();
    let m = doc.create_element("main").unwrap();
    doc.body().unwrap().append_child(&m).unwrap();
    m
}

fn ser(n: &web_sys::Node, ids: bool) -> String {
    let mut s = String::new();
    for c in n.child_nodes_vec() {
        web_sys::serialize(&c, &mut s, ids);
    }
    s
}

/// structured dump in document order: `E<id>:<tag hex>:<name=value hex,...>` ... `e`, `T<id>:<data hex>`, `C<id>:<data hex>`
fn dump(n: &web_sys::Node, out: &mut Vec<String>) {
    for c in n.child_nodes_vec() {
        match c.node_type() {
            web_sys::Node::ELEMENT_NODE => {
                let e = c.unchecked_ref::<web_sys::Element>();
                let attrs: Vec<String> = c.data().attrs.borrow().iter().map(|(k, v)| format!("{}={}", hex(k), hex(v))).collect();
                out.push(format!("E{}:{}:{}", c.id(), hex(&e.local_name()), attrs.join(",")));
                dump(&c, out);
                out.push("e".to_string());
            }
            web_sys::Node::TEXT_NODE => out.push(format!("T{}:{}", c.id(), hex(&c.data().data.borrow()))),
            web_sys::Node::COMMENT_NODE => out.push(format!("C{}:{}", c.id(), hex(&c.data().data.borrow()))),
            _ => dump(&c, out),
        }
    }
}
fn dump_str(n: &web_sys::Node) -> String {
    let mut v = Vec::new();
    dump(n, &mut v);
    v.join(" ")
}

fn fresh_render(view: &VSpec, sig_spec: &Sx, ops: &[Sx]) -> String {
    // a second root: the same view built from scratch at the current state
    let mount = new_mount();
    let mut out = String::new();
    let root = create_root(|| {
        let sigs = Signals::create(sig_spec);
        for op in ops {
            sigs.apply(op);
        }
        let m: web_sys::Node = mount.clone().into();
        render_in_scope(|| build(view, &sigs, None), &m);
        wasm_bindgen::run_microtasks();
        out = dump_str(&m);
    });
    root.dispose();
    let _ = document().body().unwrap().remove_child(&mount);
    web_sys::take_mutations();
    web_sys::take_warnings();
    out
}

fn state_line(mount: &web_sys::Node, view: &VSpec, sig_spec: &Sx, applied: &[Sx]) -> String {
    let muts = web_sys::take_mutations();
    let warns = web_sys::take_warnings();
    let dom = ser(mount, false);
    let nodes = dump_str(mount);
    let fresh = fresh_render(view, sig_spec, applied);
    format!(
        "dom {} ; fresh {} ; nodes {} ; mut {} ; warn {}",
        hex(&dom),
        fresh,
        nodes,
        muts.iter().map(|(o, n, p)| format!("{o}:{n}:{p}")).collect::<Vec<_>>().join(" "),
        warns.len()
    )
}

fn run_view(l: &[Sx], hydrate_html: Option<String>) -> Vec<String> {
    let base = if hydrate_html.is_some() { 2 } else { 1 };
    let sig_spec = l[base].clone();
    let view = parse_view(&l[base + 1]);
    // (clientpre SIGNALS VIEW (PREOPS) (OPS)): PREOPS are applied after the view has been built but BEFORE it is mounted (a component
    // body that writes a signal an earlier sibling displays)
    let (preops, ops): (Vec<Sx>, Vec<Sx>) = if l[0].atom() == "clientpre" {
        (l[base + 2].list().to_vec(), l[base + 3].list().to_vec())
    } else {
        (Vec::new(), l[base + 2].list().to_vec())
    };
    let mount = new_mount();
    let mnode: web_sys::Node = mount.clone().into();
    let mut out = Vec::new();
    if let Some(html) = &hydrate_html {
        mount.set_inner_html(html);
        let pre_nodes = dump_str(&mnode);
        LAST_PRE.with(|p| *p.borrow_mut() = pre_nodes.clone());
        out.push(format!("pre {} ; nodes {}", hex(&ser(&mnode, true)), pre_nodes));
    }
    web_sys::take_mutations();
    let mut sigs_slot = None;
    let root = create_root(|| {
        let sigs = Signals::create(&sig_spec);
        sigs_slot = Some(sigs.clone());
        if hydrate_html.is_some() {
            hydrate_in_scope(|| build(&view, &sigs, None), &mnode);
        } else {
            render_in_scope(
                || {
                    let v = build(&view, &sigs, None);
                    for op in &preops {
                        sigs.apply(op);
                    }
                    v
                },
                &mnode,
            );
        }
    });
    wasm_bindgen::run_microtasks();
    let sigs = sigs_slot.unwrap();
    let mut applied: Vec<Sx> = preops.clone();
    out.push(state_line(&mnode, &view, &sig_spec, &applied));
    for op in ops.iter() {
        root.run_in(|| sigs.apply(op));
        wasm_bindgen::run_microtasks();
        applied.push(op.clone());
        out.push(state_line(&mnode, &view, &sig_spec, &applied));
    }
    root.dispose();
    let _ = document().body().unwrap().remove_child(&mount);
    out
}

fn run_reconcile(l: &[Sx]) -> Vec<String> {
    let ids = |s: &Sx| -> Vec<u32> { s.list().iter().map(|x| x.num()).collect() };
    let (pre, a, b, post) = (ids(&l[1]), ids(&l[2]), ids(&l[3]), ids(&l[4]));
    let doc = document();
    let parent: web_sys::Node = doc.create_element("ul").unwrap().into();
    let mut nodes = std::collections::BTreeMap::new();
    for id in pre.iter().chain(&a).chain(&b).chain(&post) {
        nodes.entry(*id).or_insert_with(|| {
            let e = doc.create_element("li").unwrap();
            e.set_attribute("k", &id.to_string()).unwrap();
            let n: web_sys::Node = e.into();
            n
        });
    }
    for id in pre.iter().chain(&a).chain(&post) {
        parent.append_child(&nodes[id]).unwrap();
    }
    web_sys::take_mutations();
    let mut av: Vec<web_sys::Node> = a.iter().map(|i| nodes[i].clone()).collect();
    let bv: Vec<web_sys::Node> = b.iter().map(|i| nodes[i].clone()).collect();
    verif_reconcile_fragments(&parent, &mut av, &bv);
    let key = |n: &web_sys::Node| n.unchecked_ref::<web_sys::Element>().get_attribute("k").unwrap();
    let children: Vec<String> = parent.child_nodes_vec().iter().map(key).collect();
    let by_obj: std::collections::HashMap<u64, u32> = nodes.iter().map(|(k, n)| (n.id(), *k)).collect();
    let mut touched: Vec<u32> = web_sys::take_mutations().iter().filter_map(|(_, n, _)| by_obj.get(n).copied()).collect();
    touched.sort();
    touched.dedup();
    let detached: Vec<String> = nodes.iter().filter(|(_, n)| n.parent_node().is_none()).map(|(k, _)| k.to_string()).collect();
    vec![format!(
        "children {} ; detached {} ; touched {}",
        children.join(" "),
        detached.join(" "),
        touched.iter().map(|t| t.to_string()).collect::<Vec<_>>().join(" ")
    )]
}

fn run_scenario(line: &str) -> Vec<String> {
    let sx = sexpr::parse(line);
    let l = sx.list();
    // `hydratecf`: children-first mode of the view builder (see harness/common/viewspec.rs) for the whole scenario
    set_children_first(l[0].atom() == "hydratecf");
    let r = panic::catch_unwind(AssertUnwindSafe(|| match l[0].atom() {
        "client" | "clientpre" => run_view(l, None),
        "hydrate" | "hydratecf" => run_view(l, Some(unhex(l[1].atom()))),
        "reconcile" => run_reconcile(l),
        x => panic!("bad scenario {x}"),
    }));
    web_sys::take_mutations();
    web_sys::take_warnings();
    verif_clear_hydrate_nodes();
    match r {
        Ok(v) => v,
        Err(_) => {
            // for a hydration that panicked, keep the parsed server DOM it was given (second line)
            let mut v = vec![format!("PANIC {}", hex(&LAST_PANIC.with(|p| p.borrow().clone())))];
            if l[0].atom().starts_with("hydrate") {
                v.push(format!("prenodes {}", LAST_PRE.with(|p| p.borrow().clone())));
            }
            v
        }
    }
}

fn main() {
    panic::set_hook(Box::new(|info| {
        let msg = if let Some(s) = info.payload().downcast_ref::<&str>() {
            s.to_string()
        } else if let Some(s) = info.payload().downcast_ref::<String>() {
            s.clone()
        } else {
            String::new()
        };
        let loc = info.location().map(|l| format!(" @ {}:{}", l.file(), l.line())).unwrap_or_default();
        if std::env::var("VERIF_DEBUG").is_ok() {
            eprintln!("panic: {msg}{loc}");
        }
        LAST_PANIC.with(|p| *p.borrow_mut() = format!("{msg}{loc}"));
    }));
    let stdin = io::stdin();
    let out = io::stdout();
    let mut out = io::BufWriter::new(out.lock());
    let mut first = true;
    for line in stdin.lock().lines() {
        let line = line.unwrap();
        if line.trim().is_empty() {
            continue;
        }
        if !first {
            writeln!(out, "==").unwrap();
        }
        first = false;
        for l in run_scenario(&line) {
            writeln!(out, "{l}").unwrap();
        }
    }
}
