//! C19 driver: the real `Lerp` implementations and easing functions.
//! stdin lines:
//!   `LI <type> <a> <b> <scalar bits>`        integer lerp (type = i8 .. u128, isize, usize)
//!   `LF <a bits> <b bits> <scalar bits>`     f32 lerp
//!   `LD <a bits64> <b bits64> <scalar bits>` f64 lerp
//!   `LA <a0,a1,a2> <b0,b1,b2> <scalar bits>` [i32; 3] lerp
//!   `E <k> <t bits>`                         easing function number k
//! stdout: the result (integers in decimal, floats as bit patterns, NaN as `nan`), or `PANIC`.
use std::io::{self, BufRead, Write};
use std::panic;

use sycamore::easing::*;
use sycamore::motion::Lerp;

fn f32b(s: &str) -> f32 {
    f32::from_bits(s.parse::<u32>().unwrap())
}
fn show32(x: f32) -> String {
    if x.is_nan() {
        "nan".into()
    } else {
        x.to_bits().to_string()
    }
}
fn show64(x: f64) -> String {
    if x.is_nan() {
        "nan".into()
    } else {
        x.to_bits().to_string()
    }
}

macro_rules! li {
    ($t:ty, $a:expr, $b:expr, $s:expr) => {{
        let a: $t = $a.parse().unwrap();
        let b: $t = $b.parse().unwrap();
        a.lerp(&b, $s).to_string()
    }};
}

const EASINGS: [fn(f32) -> f32; 25] = [
    linear, quad_in, quad_out, quad_inout, cubic_in, cubic_out, cubic_inout, quart_in, quart_out, quart_inout,
    quint_in, quint_out, quint_inout, circ_in, circ_out, circ_inout, bounce_in, bounce_out, bounce_inout,
    expo_in, expo_out, expo_inout, sine_in, sine_out, sine_inout,
];

fn run(line: &str) -> String {
    let f: Vec<&str> = line.split(' ').collect();
    match f[0] {
        "LI" => {
            let s = f32b(f[4]);
            match f[1] {
                "i8" => li!(i8, f[2], f[3], s),
                "i16" => li!(i16, f[2], f[3], s),
                "i32" => li!(i32, f[2], f[3], s),
                "i64" => li!(i64, f[2], f[3], s),
                "i128" => li!(i128, f[2], f[3], s),
                "isize" => li!(isize, f[2], f[3], s),
                "u8" => li!(u8, f[2], f[3], s),
                "u16" => li!(u16, f[2], f[3], s),
                "u32" => li!(u32, f[2], f[3], s),
                "u64" => li!(u64, f[2], f[3], s),
                "u128" => li!(u128, f[2], f[3], s),
                "usize" => li!(usize, f[2], f[3], s),
                t => panic!("bad type {t}"),
            }
        }
        "LF" => show32(f32b(f[1]).lerp(&f32b(f[2]), f32b(f[3]))),
        "LD" => {
            let a = f64::from_bits(f[1].parse().unwrap());
            let b = f64::from_bits(f[2].parse().unwrap());
            show64(a.lerp(&b, f32b(f[3])))
        }
        "LA" => {
            let p = |s: &str| -> [i32; 3] {
                let v: Vec<i32> = s.split(',').map(|x| x.parse().unwrap()).collect();
                [v[0], v[1], v[2]]
            };
            let r = p(f[1]).lerp(&p(f[2]), f32b(f[3]));
            format!("{},{},{}", r[0], r[1], r[2])
        }
        "E" => {
            let k: usize = f[1].parse().unwrap();
            show32(EASINGS[k](f32b(f[2])))
        }
        x => panic!("bad request {x}"),
    }
}

fn main() {
    panic::set_hook(Box::new(|_| {}));
    let stdin = io::stdin();
    let out = io::stdout();
    let mut out = io::BufWriter::new(out.lock());
    for line in stdin.lock().lines() {
        let line = line.unwrap();
        let r = panic::catch_unwind(|| run(&line));
        writeln!(out, "{}", r.unwrap_or_else(|_| "PANIC".to_string())).unwrap();
    }
}
