#!/usr/bin/env python3
"""MANIFEST.setup_cmd: build the Coq development and the harness crates from files on disk."""
import os
import sys

sys.path.insert(0, os.path.dirname(os.path.abspath(__file__)))
import vlib

ok, out = vlib.coq_make([], timeout=7200)
print(out[-3000:])
if not ok:
    print("setup: coq build failed")
    sys.exit(1)
import manifest
rc = 0
for pkg, kw in manifest.HARNESS_PACKAGES:
    okb, out, _ = vlib.cargo_build(pkg, **kw)
    print("cargo build %s: %s" % (pkg, "ok" if okb else "FAILED"))
    if not okb:
        print(out[-3000:])
        rc = 1
import domgen
try:
    domgen.write()
    okb, out, _ = vlib.cargo_build("dom-driver", workspace=os.path.join(vlib.HARNESS, "dom"))
    print("cargo build dom-driver: %s" % ("ok" if okb else "FAILED"))
    if not okb:
        print(out[-3000:])
        rc = 1
except domgen.GenError as e:
    print("domgen failed:", e)
    rc = 1
sys.exit(rc)
