"""C08 -- server rendering is faithful and injection-safe (DESIGN.md 5.C08)."""
import itertools
import random

import viewgen
import vlib
from vlib import glist

PID = "C08"
THEOREMS = ["C08_render_roundtrip", "C08_render_to_string_roundtrip", "C08_injection_safe", "C08_injection_safe_2", "C08_void_no_end_tag",
            "C08_none_attr_omitted", "C08_false_bool_attr_omitted", "C08_false_dyn_bool_attr_omitted"]

PRE = ("From Coq Require Import List String ZArith.\nFrom Syc Require Import Common.Show Ssr.Html Ssr.View Ssr.Show.\nRequire Syc.Ssr.RoundTrip.\n"
       "Import ListNotations.\n")


def single_slot(tier):
    """every string of length <= 2 (quick) / 3 (thorough) over the metacharacter alphabet in each kind of slot"""
    alpha = ["<", ">", "&", '"', "'", "-", "!", "/", "=", " ", "t", "é", ";", "#"]
    L = 2 if tier == "quick" else 3
    strings = ["".join(t) for n in range(L + 1) for t in itertools.product(alpha, repeat=n)]
    strings += ["<!--", "-->", "--!>", "<!-->", "&amp;", "&lt;", "&#60;", "&#x3c;", "]]>", "<![CDATA[x]]>", "</p>", "<script>alert(1)</script>",
                "\"><img src=x>", "' onload='x", "&quot;", "a\nb", " ", "&amp", "&lt"]
    cases = []
    for s in strings:
        st = {"s": {0: s}, "b": {}, "l": {}}
        cases.append(("slot:text", st, ("el", "p", [], [("text", s)])))
        cases.append(("slot:dyntext", st, ("el", "p", [], [("dyntext", 0)])))
        cases.append(("slot:attr", st, ("el", "p", [("a", "title", s)], [])))
        cases.append(("slot:dynattr", st, ("el", "input", [("adyn", "value", 0)], [])))
    # the same string LITERAL (one `&'static str`) as a text node first and as attribute values afterwards, and the other way round: the
    # driver passes static text and attribute values as literals in these cases (`synclit`), as `view!` does for string literals
    for s in strings:
        if len(s) <= 1 or len(s) > 2 or any(c in s for c in "<>&\"'"):
            st = {"s": {}, "b": {}, "l": {}}
            cases.append(("slot:literal", st, ("el", "div", [], [("el", "p", [], [("text", s)]), ("el", "span", [("a", "title", s)], []),
                                                                 ("el", "i", [("a", "data-x", s)], [("text", s)])])))
            cases.append(("slot:literal", st, ("el", "div", [("a", "title", s)], [("text", s), ("el", "b", [("a", "lang", s)], [])])))
    # ADJACENT static text nodes (no marker between them) whose concatenation reads as a character reference, a comment or a tag
    # although neither part does: each node must be escaped on its own (seed C08-f)
    heads = ["&", "x &", "a&", "&#", "&#6", "&l", "&am", "&amp", "<", "<!", "<!-", "</", "-", "--"]
    tails = ["amp;", "lt;", "lt", "gt;x", "#60;", "#x3c;", "0;", "t;", "p;", ";", "!--", "--", "->", ">", "p>", "/p>", "script>"]
    for a in heads:
        for b in tails:
            st = {"s": {}, "b": {}, "l": {}}
            cases.append(("slot:adjacent", st, ("el", "p", [], [("text", a), ("text", b)])))
    for a, b, c in (("a&", "#60;", "b"), ("AT&", "T&", "amp;T"), ("<", "!--", "x-->"), ("&", "l", "t;")):
        cases.append(("slot:adjacent", {"s": {}, "b": {}, "l": {}}, ("el", "div", [], [("text", a), ("text", b), ("text", c)])))
    return cases


RAW = ("script", "style")


def raw_text_slots(tier):
    """the same strings, and end-tag look-alikes, as the text of script / style elements (raw-text elements in HTML, ordinary
    elements under svg): the renderer must escape there as everywhere else"""
    alpha = ["<", ">", "&", "/", "-", "!", "s", " "]
    strings = ["".join(t) for n in range(3 if tier == "quick" else 4) for t in itertools.product(alpha, repeat=n)]
    strings += ["</script>", "</style>", "</SCRIPT >", "</script/", "</style\n>", "</scriptx", "<g>", "&amp;", "&lt;/script&gt;", "<!--", "-->", "<!-- </script> -->",
                "var s = \"</script><img src=x onerror=alert(1)>\";", "ul > li && x {}", "a{}</style><p>x</p>", "]]>"]
    cases = []
    for s in strings:
        st = {"s": {0: s}, "b": {0: True}, "l": {}}
        for tag in RAW:
            cases.append(("slot:rawtext", st, ("el", tag, [], [("text", s)])))
            cases.append(("slot:rawtext", st, ("el", "div", [], [("el", tag, [], [("dyntext", 0)]), ("el", "p", [], [])])))
            cases.append(("slot:rawtext", st, ("el", "svg", [], [("el", tag, [], [("text", s)])])))
            cases.append(("slot:rawtext", st, ("el", tag, [("a", "type", s)], [("dyn", 0, [("text", s)], [])])))
    return cases


PRELIKE = ("pre", "textarea", "listing")
RCDATA = ("title", "textarea")


def browser_slots():
    """strings and places where a real HTML parser departs from the uniform reading: a leading line feed right after <pre> / <textarea>,
    carriage returns (normalised to line feeds by the input pre-processing), dynamic parts inside title / textarea (RCDATA: comments are text)"""
    cases = []
    for s in ["\nx", "\n", "\n\nx", "x\ny", "a\rb", "a\r\nb", "\r", "plain"]:
        st = {"s": {0: s}, "b": {0: True}, "l": {}}
        for tag in ("pre", "textarea", "p"):
            cases.append(("slot:browser", st, ("el", tag, [], [("text", s)])))
            cases.append(("slot:browser", st, ("el", tag, [("a", "title", s)], [("dyntext", 0)])))
        cases.append(("slot:browser", st, ("el", "title", [], [("text", "Inbox ("), ("dyntext", 0), ("text", ")")])))
        cases.append(("slot:browser", st, ("el", "textarea", [], [("dyn", 0, [("text", s)], [])])))
    return cases


def browser_reading(toks):
    """the token list as a browser's parser would deliver it, for the three rules above (applied to the uniform tokenization of the real
    output); None when a comment / tag sits inside an RCDATA element (it would be literal text there)"""
    out = []
    inside = None
    for i, t in enumerate(toks):
        if t[0] == "S":
            t = ("S", t[1], [(n, None if v is None else v.replace("\r\n", "\n").replace("\r", "\n")) for n, v in t[2]])
            if inside is not None:
                return None
            if t[1] in RCDATA:
                inside = t[1]
        elif t[0] == "E":
            if inside is not None and t[1] != inside:
                return None
            if t[1] == inside:
                inside = None
        elif t[0] == "C":
            if inside is not None:
                return None
        elif t[0] == "T":
            txt = t[1].replace("\r\n", "\n").replace("\r", "\n")
            if out and out[-1][0] == "S" and out[-1][1] in PRELIKE and txt.startswith("\n"):
                txt = txt[1:]
            t = ("T", txt)
        out.append(t)
    return out


def browser_finding(v, st):
    """which known finding explains a difference between the uniform and the browser reading for this view"""
    def strings(x):
        if x[0] == "el":
            for a in x[2]:
                if a[0] == "a":
                    yield a[2]
                elif a[0] == "adyn":
                    yield st["s"].get(a[2]) or ""
            for c in x[3]:
                yield from strings(c)
        elif x[0] == "text":
            yield x[1]
        elif x[0] == "dyntext":
            yield st["s"].get(x[1]) or ""
        elif x[0] == "dyn":
            for c in x[2] + x[3]:
                yield from strings(c)

    def first_text(x):
        if x[0] == "text":
            return x[1]
        if x[0] == "dyntext":
            return None        # (its marker comment comes first)
        return None
    if v[0] != "el":
        return None
    if v[1] in RCDATA and any(c[0] in ("dyntext", "dyn", "show") for c in v[3]):
        return "F39-markers-in-rcdata"
    if any("\r" in x for x in strings(v)):
        return "F40-carriage-return"
    if v[1] in PRELIKE and v[3] and (first_text(v[3][0]) or "").startswith("\n"):
        return "F38-leading-newline-in-pre"
    return None


def with_raw(v, rng):
    """rename some elements of a random view to script / style"""
    if v[0] == "el":
        tag = rng.choice(RAW) if v[1] not in viewgen.VOID and rng.random() < 0.3 else v[1]
        return ("el", tag, v[2], [with_raw(c, rng) for c in v[3]])
    if v[0] in ("frag", "comp", "nohydrate", "nossr"):
        return (v[0], [with_raw(c, rng) for c in v[1]])
    if v[0] == "dyn":
        return ("dyn", v[1], [with_raw(c, rng) for c in v[2]], [with_raw(c, rng) for c in v[3]])
    if v[0] == "show":
        return ("show", v[1], [with_raw(c, rng) for c in v[2]])
    if v[0] == "list":
        return v[:3] + ([with_raw(c, rng) for c in v[3]],)
    return v


def gen(tier, rng):
    cases = single_slot(tier) + raw_text_slots(tier) + browser_slots()
    for i in range(1500 if tier == "quick" else 15000):
        st, v = viewgen.random_view(rng, rng.choice([2, 3, 4]))
        if i % 8 == 7:
            cases.append(("random:rawtext", st, with_raw(v, rng)))
        else:
            cases.append(("random", st, v))
    return cases


def browser_tags(html):
    """the start / end tag sequence of `html` as a browser's tokenizer sees it, i.e. with script and style outside svg read as raw
    text up to their end-tag look-alike; used only to rank failures (a replay that a browser confirms comes first)"""
    import re
    out, i, svg = [], 0, 0
    while i < len(html):
        if html.startswith("<!--", i):
            if html.startswith("<!-->", i):
                i += 5
                continue
            j = html.find("-->", i + 4)
            i = len(html) if j < 0 else j + 3
            continue
        m = re.compile(r"</([a-zA-Z][^\s/>]*)[^>]*>").match(html, i)
        if m:
            t = m.group(1).lower()
            out.append(("E", t))
            svg -= (t == "svg")
            i = m.end()
            continue
        m = re.compile(r'<([a-zA-Z][^\s/>]*)((?:[^>"]|"[^"]*")*)>').match(html, i)
        if m:
            t = m.group(1).lower()
            out.append(("S", t))
            svg += (t == "svg")
            i = m.end()
            if t in RAW and svg <= 0:
                e = re.compile(r"</%s[\t\n\f\r />]" % t, re.I).search(html, i)
                i = len(html) if e is None else e.start()
            continue
        i += 1
    return out


def strip_hk(toks):
    out = []
    for t in toks:
        if t[0] == "S":
            out.append(("S", t[1], [a for a in t[2] if a[0] != "data-hk"]))
        else:
            out.append(t)
    return out


def main(argv):
    a, seed = vlib.args(argv)
    chk = vlib.Check(PID, a.tier, seed, "proof")
    rng = random.Random(seed * 8191 + 8)
    chk.trusted = ["Coq 8.16.1 kernel + vm_compute", "hand-written model coq/theories/Ssr/{Html,View}.v tied to ssr_node.rs / view.rs / components.rs / iter.rs by this run",
                   "the tokenizer of Ssr/Html.v as the reading of the HTML standard for the subset the renderer emits (data state, tags, double-quoted attributes, comments incl. <!-->, the four references)",
                   "harness/ssr-driver + harness/common/viewspec.rs (view vocabulary over the real builder API)", "tools/viewgen.py, tools/c08.py",
                   "modelled, not verified: html-escape (from its tables, compared on every run), Cow/Arc<Mutex<_>> plumbing"]
    chk.assumptions = ["script and style are generated and read like every other element (the property's reading: entities are decoded everywhere; a browser does not decode them "
                       "inside HTML script / style, which the uniform escaping of the renderer does not account for); a browser's reading of pre / textarea / title and of carriage returns is compared on a small family (known findings F38-F40); inner_html, duplicate attribute names, CR and NUL in strings, "
                       "and the tree-construction fix-ups of a full HTML parser are outside the vocabulary"]
    chk.rule = ("single-slot views: every string of length <= 2 (quick) / 3 (thorough) over the metacharacter alphabet plus comment / CDATA / entity "
                "look-alikes in a text, dynamic text, attribute and dynamic attribute slot; the same and end-tag look-alikes as the text of script / style elements (HTML and under svg); random view trees of depth <= 4 over elements (HTML, SVG, "
                "custom, void), static and dynamic text, dynamic views, Show, Keyed/Indexed, components, NoHydrate/NoSsr, static/dynamic/None and boolean "
                "attributes; non-trivial = the output contains an escaped metacharacter or a marker comment; distinct = distinct (state, view)")
    ok, msg = vlib.proof_step(chk, "C08", ["theories/Props/C08.vo", "theories/Ssr/Show.vo"], THEOREMS)
    broken = [] if ok else ["theorem: " + msg]
    vlib.coq_make(["theories/Ssr/Show.vo"])
    okb, outb, binp = vlib.cargo_build("ssr-driver")
    chk.obligation("cargo build ssr-driver against /repo", okb, outb)
    if not okb:
        chk.violation({"property": PID, "broken": "harness build", "output": outb[-2000:]}, no_input=True)
        return chk.finish()
    cases = gen(a.tier, rng)
    text = "\n".join("(seq (%s %s %s))" % ("synclit" if tag == "slot:literal" else "sync", viewgen.sx_state(st), viewgen.sx_view(v)) for tag, st, v in cases) + "\n"
    rc, so, se = vlib.run_driver(binp, text)
    blocks = so.rstrip("\n").split("\n==\n")
    if rc != 0 or len(blocks) != len(cases):
        chk.violation({"property": PID, "broken": "driver run", "rc": rc, "stderr": se[-1500:]}, no_input=True)
        return chk.finish()
    impl = [b.split(" ")[0] for b in blocks]
    mism, orfail = [], []
    model = parsed = None
    if True:
        try:
            per = 150
            exprs = ["run_render %s" % glist(["(%s, %s)" % (viewgen.cq_state(st), viewgen.cq_view(v)) for _, st, v in cases[i:i + per]])
                     for i in range(0, len(cases), per)]
            nrender = len(exprs)
            exprs += ["run_tokenize %s" % glist(['"%s"' % h for h in impl[i:i + per]]) for i in range(0, len(cases), per)]
            nall = len(exprs)
            if ok:
                exprs += ["Common.Show.show_nat (List.length (List.filter (fun v => negb (Ssr.RoundTrip.wf_view v)) %s))" % glist([viewgen.cq_view(v) for _, _, v in cases[i:i + per]])
                          for i in range(0, len(cases), per)]
            outs = vlib.coq_eval(PID, PRE, exprs, per_file=max(1, (len(exprs) + 31) // 32))
            model = [l for o in outs[:nrender] for l in o.split("\n")]
            parsed = [l for o in outs[nrender:nall] for l in o.split("\n")]
            if ok:
                notwf = sum(int(o) for o in outs[nall:])
                chk.obligation("hypothesis of the round-trip theorems: wf_view holds for the %d generated views (tag and attribute names are names)" % len(cases),
                               notwf == 0, "%d generated views are outside the theorem's hypothesis" % notwf)
        except RuntimeError as e:
            broken.append("model evaluation: " + str(e)[-500:])
            chk.obligation("model evaluation", False, str(e))
    dist = {}
    findings = {f["key"]: f for f in vlib.load_findings(PID)}
    for i, ((tag, st, v), out_hex) in enumerate(zip(cases, impl)):
        key = viewgen.sx_state(st) + viewgen.sx_view(v)
        raw = bytes.fromhex(out_hex) if out_hex != "PANIC" else b""
        chk.note_case(key, any(x in raw for x in (b"&amp;", b"&lt;", b"&gt;", b"&quot;", b"<!--")))
        dist[tag] = dist.get(tag, 0) + 1
        if out_hex == "PANIC":
            orfail.append({"case": i, "what": "render_to_string panicked", "view": viewgen.sx_view(v), "state": viewgen.sx_state(st)})
            continue
        if model is not None and model[i] != out_hex:
            mism.append({"view": viewgen.sx_view(v), "state": viewgen.sx_state(st), "impl": raw.decode("utf8", "replace"),
                         "model": bytes.fromhex(model[i]).decode("utf8", "replace")})
        if parsed is not None:
            exp = viewgen.norm_tokens(viewgen.expected_tokens(v, st))
            got = viewgen.parse_coq_tokens(parsed[i])
            if got is None:
                orfail.append({"case": i, "what": "output is not parseable by the HTML tokenizer", "view": viewgen.sx_view(v), "state": viewgen.sx_state(st),
                               "output": raw.decode("utf8", "replace")})
            elif viewgen.norm_tokens(strip_hk(got)) != exp and tag == "slot:browser" and browser_reading(strip_hk(got)) is not None \
                    and viewgen.norm_tokens(browser_reading(strip_hk(got))) == exp:
                pass        # differs from the uniform reading exactly where a browser differs too (e.g. an extra line feed after <pre>): faithful
            elif viewgen.norm_tokens(strip_hk(got)) != exp:
                orfail.append({"case": i, "what": "output does not parse back to the view that was built", "view": viewgen.sx_view(v),
                               "state": viewgen.sx_state(st), "output": raw.decode("utf8", "replace"),
                               "parsed": str(viewgen.norm_tokens(strip_hk(got)))[:600], "expected": str(exp)[:600]})
            elif tag == "slot:browser":
                # the same output as a browser's parser reads it (leading LF of pre / textarea dropped, CR normalised, RCDATA content is text)
                br = browser_reading(strip_hk(got))
                if br is None or viewgen.norm_tokens(br) != exp:
                    key = browser_finding(v, st)
                    if key and key in findings:
                        chk.known(findings[key], "e.g. " + viewgen.sx_view(v)[:120])
                    else:
                        orfail.append({"case": i, "what": "a browser's parser does not read the output back as the view that was built", "view": viewgen.sx_view(v),
                                       "state": viewgen.sx_state(st), "output": raw.decode("utf8", "replace"),
                                       "browser_reads": str(None if br is None else viewgen.norm_tokens(br))[:400], "expected": str(exp)[:400]})
    chk.traces = len(cases) if model is not None else 0
    chk.cov["distribution"] = dist
    chk.obligation("correspondence: model bytes = render_to_string bytes on %d views" % len(cases), model is not None and not mism, str(mism[:2]))
    chk.obligation("oracle: the real output tokenizes back to the view that was built", parsed is not None and not orfail, str(orfail[:2]))
    for i in (0, len(cases) // 2, len(cases) - 1):
        chk.sample({"view": viewgen.sx_view(cases[i][2]), "output": bytes.fromhex(impl[i]).decode("utf8", "replace") if impl[i] != "PANIC" else "PANIC"})
    if orfail:
        # failures that a browser's tokenizer (raw-text aware) confirms as a change of the element tree come first
        def confirmed(o):
            i = o.get("case")
            if i is None or impl[i] == "PANIC":
                return False
            exp = [(t[0], t[1]) for t in viewgen.expected_tokens(cases[i][2], cases[i][1]) if t[0] in "SE"]
            return browser_tags(bytes.fromhex(impl[i]).decode("utf8", "replace")) != exp
        for o in orfail:
            o["browser_confirms_tree_change"] = confirmed(o)
        orfail.sort(key=lambda o: (not o["browser_confirms_tree_change"], len(str(o))))
        for o in orfail:
            o.pop("case", None)
        chk.violation({"property": PID, "kind": "oracle failure on implementation output", "input": orfail[0], "count": len(orfail), "also_broken": broken})
    elif mism or broken:
        chk.violation({"property": PID, "kind": "proof/correspondence broken, oracle clean on all inputs explored", "broken": broken,
                       "mismatches": mism[:3], "mismatch_count": len(mism)}, no_input=True)
    return chk.finish()
