#!/usr/bin/env python3
"""Entry point: tools/check.py <ID> [--tier quick|thorough] [--replay file]"""
import importlib
import os
import sys

sys.path.insert(0, os.path.dirname(os.path.abspath(__file__)))

if __name__ == "__main__":
    if len(sys.argv) < 2:
        print("usage: check.py <C01..C19> [--tier quick|thorough]")
        sys.exit(2)
    mod = importlib.import_module(sys.argv[1].lower())
    sys.exit(mod.main(sys.argv[1:]))
