"""Node identities (C04 'destroyed signals report not alive', for ever): histories of creations / disposals / root
re-initialisations through the real sycamore-reactive API (harness/arena-driver) against the slot-map model
coq/theories/Reactive/Arena.v (`drun_show`), plus an oracle on the real output alone: a handle that was seen dead is never
alive again, and no two handles ever carry the same raw key.  Theorems: Props/C04a.v."""
import random
import vlib

PREAMBLE = ("From Coq Require Import List NArith String.\nFrom Syc Require Import Reactive.Arena.\n"
            "Import ListNotations.\nOpen Scope nat_scope.\nOpen Scope string_scope.\n")


def gen(tier, seed):
    rng = random.Random(seed * 7919 + 11)
    out = []
    # deterministic families first: re-use chains, reinit after every shape
    out.append(["n", "r", "n"])                                   # the shortest witness against a fresh arena (F28)
    out.append(["n", "n", "d1", "n", "d3", "n", "d4", "n"])       # one slot handed out four times
    out.append(["s3", "d1", "n", "n", "n", "n", "r", "n", "s2", "d0"])
    out.append(["n", "n", "n", "d2", "d1", "d3", "n", "n", "n", "n"])  # free list is a stack
    out.append(["s2", "n", "d3", "d2", "d1", "s2", "r", "r", "n"])
    n = 150 if tier == "quick" else 1500
    for i in range(n):
        h = []
        nh = 1
        roots = {0}
        for _ in range(rng.randint(4, 14 if tier == "quick" else 24)):
            x = rng.random()
            if x < 0.35 or nh < 3:
                h.append("n"); nh += 1
            elif x < 0.5:
                k = rng.randint(0, 3)
                h.append("s%d" % k); nh += 1 + k
            elif x < 0.9:
                t = rng.randrange(1, nh)
                if t in roots:
                    continue
                h.append("d%d" % t)
            else:
                h.append("r"); roots.add(nh); nh += 1
        out.append(h)
    return out


def to_coq(h):
    ops = []
    for t in h:
        if t == "n":
            ops.append("DNew")
        elif t == "r":
            ops.append("DReinit")
        elif t[0] == "s":
            ops.append("DScope %s" % t[1:])
        else:
            ops.append("DDel %s" % t[1:])
    return "drun_show [%s]" % "; ".join(ops)


def oracle(h, lines):
    """on the implementation's own output: dead stays dead, raw keys never repeat among handles"""
    fails = []
    dead = set()
    for step, line in enumerate(lines):
        if line == "PANIC":
            fails.append("step %d (%s) panicked" % (step, h[step]))
            break
        obs = [tuple(x.split(":")) for x in line.split(",")]
        ids = [o[0] for o in obs]
        if len(set(ids)) != len(ids):
            dup = [i for i in set(ids) if ids.count(i) > 1][0]
            fails.append("after step %d (%s) two handles carry the raw key %s (idx %d, version %d): a destroyed node's handle now names a new node"
                         % (step, h[step], dup, int(dup) & 0xffffffff, int(dup) >> 32))
        for j, (_, al) in enumerate(obs):
            if al == "1" and j in dead:
                fails.append("handle %d was dead and is alive again after step %d (%s)" % (j, step, h[step]))
            if al == "0":
                dead.add(j)
    return fails


def obligations(tier="quick", seed=1):
    okb, outb, binp = vlib.cargo_build("arena-driver")
    if not okb:
        return [("node identities: cargo build arena-driver", False, outb[-600:])]
    hs = gen(tier, seed)
    rc, so, se = vlib.run_driver(binp, "\n".join(" ".join(h) for h in hs) + "\n")
    blocks = so.rstrip("\n").split("\n==\n")
    if rc != 0 or len(blocks) != len(hs):
        return [("node identities: arena-driver run", False, se[-600:])]
    res = []
    bad = []
    for h, b in zip(hs, blocks):
        f = oracle(h, b.split("\n"))
        if f:
            bad.append({"history": " ".join(h), "failures": f[:2], "replay": "echo '%s' | harness/target/debug/arena-driver" % " ".join(h)})
    bad.sort(key=lambda x: len(x["history"]))
    nre = sum(1 for h in hs if "r" in h)
    res.append(("node identities: on %d histories of create / dispose / RootHandle::dispose (%d with a re-initialisation) a handle seen dead is never alive again and no raw key is handed out twice"
                % (len(hs), nre), not bad, str(bad[:1]), bad[0] if bad else None))
    try:
        model = vlib.coq_eval("C04arena", PREAMBLE, [to_coq(h) for h in hs], per_file=max(1, len(hs) // 16 + 1))
    except RuntimeError as e:
        res.append(("node identities: Arena.v evaluates", False, str(e)[-800:]))
        return res
    diff = [(h, m, b) for h, m, b in zip(hs, model, blocks) if m != b]
    diff.sort(key=lambda x: len(x[0]))
    detail = ""
    if diff:
        h, m, b = diff[0]
        ml, bl = m.split("\n"), b.split("\n")
        k = next((i for i in range(min(len(ml), len(bl))) if ml[i] != bl[i]), min(len(ml), len(bl)))
        detail = "history '%s' step %d: model %s / real %s" % (" ".join(h), k, ml[k] if k < len(ml) else "-", bl[k] if k < len(bl) else "-")
    res.append(("node identities: Arena.v (slot versions, free list, drain) predicts the raw key and liveness of every handle after every step on %d histories" % len(hs),
                not diff, detail))
    return res


if __name__ == "__main__":
    for ob in obligations():
        print(ob[1], ob[0], ob[2][:300])
