#!/usr/bin/env python3
"""Single source of MANIFEST.json: run `python3 tools/manifest.py` after editing the table."""
import json
import os

ROOT = os.path.dirname(os.path.dirname(os.path.abspath(__file__)))

# harness packages built by setup (name, kwargs for vlib.cargo_build)
DOM_PACKAGES = [("dom-driver", {})]

HARNESS_PACKAGES = [
    ("router-driver", {}),
    ("macro-driver", {}),
    ("reactive-driver", {}),
    ("list-driver", {}),
    ("motion-driver", {}),
    ("motion-driver", {"release": True}),
    ("ssr-driver", {}),
    ("futures-driver", {}),
    ("arena-driver", {}),
]

TB = ("Trusted: Coq 8.16.1 kernel and vm_compute; the hand-written Gallina model is tied to the code only by the "
      "differential correspondence run of this check (python generators/comparers, the Rust driver and its printer); ")

CHECKS = {
    "C17": dict(
        technique="Coq proof (induction) over a hand-written Gallina model + exhaustive differential correspondence against the real matcher and real derived enums",
        text=("Theorems C17_match_iff_fits, C17_match_total, C17_captures_count, C17_captures_reproduce, "
              "C17_dyn_segments_lazy, C17_route_enum_total, C17_route_enum_first_match are proved for all patterns, "
              "paths and URL strings (no bound) about the Gallina model of RoutePath::match_path and of the derived "
              "match_route; the model is compared with the real code on every pattern of length <=3 (quick) / <=4 "
              "(thorough) over {a,b,<p>,<p..>} x every path over {a,b,c} of the same length, decorated and random "
              "longer paths, and 10 derived enums (the #[not_found] variant first, in the middle or last) x random URLs; a python oracle written from the property text "
              "judges the implementation's own output."),
        note=TB + "python mirror of parse_route; nested-Route capture fields and the browser integration (router.rs) are not modelled.",
        design="5.C17"),
}

CHECKS["C18"] = dict(
    technique="Coq proof over a classification table regenerated from codegen.rs by a translator on every run + differential correspondence through the real syn parser and real Codegen",
    text=("Theorems C18_is_dyn_conservative / C18_static_is_eval_free / C18_codegen_wraps hold for every syntax tree (no bound on "
          "depth or width) over the full syn Expr/Pat/Stmt constructor set: any tree containing, outside closures, a call, method call, "
          "non-view macro, await, try or assignment is classified dynamic. is_dyn is `classify dyn_rule` where dyn_rule is regenerated "
          "from is_dyn/is_dyn_pattern/is_dyn_block/is_dyn_macro in codegen.rs by tools/c18_translate.py on every run, so the theorem is "
          "re-proved against what the code says now; additionally ~15k (quick) / ~70k (thorough) generated Rust expressions (calls, method calls incl. conversion-looking ones such as x.to_string() / x.clone(), macros, await, try, assignments inside every expression and pattern form) go through the real "
          "syn parser, the real view parser and Codegen in child and four attribute positions, and are compared with the model and judged "
          "by a python oracle restating the property."),
    note=TB + "the translator tools/c18_translate.py; the syn->tree conversion in harness/macro-driver; const blocks and nested items are treated as opaque like closures; compound assignment counts as a binary operator.",
    design="5.C18")

RTB = TB + "the verif hook module of sycamore-reactive; slotmap / RefCell / Box<dyn Any> are modelled (fresh ids, explicit state passing), not verified."
RCOMMON = ("The fuelled big-step Gallina interpreter Reactive/Interp.v mirrors root.rs/node.rs/signals.rs/memos.rs/effects.rs/context.rs; every check run "
           "evaluates generated scenarios both in the model (vm_compute) and through harness/reactive-driver on the real API and compares the full observation "
           "logs and graph snapshots (values, liveness, subscription lists, dead subscribers, node counts, reachable counts) line by line; an oracle independent "
           "of the model judges the implementation's output: ")
PURE = (" Theorems are proved on ReactivePure (the propagation loop with pure expression callbacks: run_node_update, unlink/link, mark_dependents_dirty); "
        "ReactivePure is tied to Reactive/Interp.v by an executable bridge evaluated on 1500 write prefixes per run, and Interp to the code by the correspondence. ")
_R = {
    "C01": ("proof", "5.C01", "after every top-level write/batch every live pure tracked-only computation holds what its function yields from the current values (from-scratch re-evaluation).",
            PURE + "Proved on ReactivePure for a WHOLE write and any history of writes (C01Write.v): the depth-first pass, started from a freshly written signal of a quiescent state with its fuel, neither runs out of fuel nor reports a cycle, changes only marks and establishes the loop invariant Inv (C01_dfs_establishes_inv); a late-read-free write (or batch flush) leads from a quiescent state (marks reset, nothing dirty, symmetric edges, every computation consistent with the current values, acyclic) to a quiescent state (C01_write_consistent, C01_batch_consistent), hence so does every sequence of writes (C01_writes_consistent); quiescent states are closed under node creation; a tracked-only memo of a quiescent state holds exactly what its function yields from the current values. The late-read hypothesis LRF cannot be dropped: C01_late_read_refuted / C01_write_consistent_without_lrf_refuted are known finding F1. The pure depth-first pass is compared with Interp's on every bridge evaluation (same schedule, same result)."),
    "C02": ("proof", "5.C02", "per propagation: each computation runs at most once, reads only settled derived values, and re-runs only if one of its previous subscriptions fired.",
            PURE + "Proved for a whole write from a quiescent state (ReactivePure/Glitch.v): the schedule has no duplicates, one trace entry per scheduled node, only nodes reachable from the written signal (C02_write_schedule: at most one run per write); when a node runs, every node it reads with tracking, and every dependency of such a node, is settled -- no longer scheduled, not dirty, consistent, holding its final value (C02_write_reads_settled); a node runs IF AND ONLY IF one of the dependencies it had before the write is the written signal or a computation that ran earlier in this propagation and changed (C02_write_runs_only_if_fired, C02_write_runs_if_fired; selectors that compare equal do not fire). All under the late-read hypothesis (F1). Untracked reads are outside the guarantee, in model and code alike (C02_untracked_read_sees_stale_value = known finding F19)."),
    "C03": ("proof", "5.C03", "after each run the subscriptions equal the specification-level tracked reads of that run (untracked forms never subscribe) and every subscriber of a fired node re-runs, also for the writes a computation makes while another write -- or the flush of a batch -- is being propagated; every third program with an untrack block or a batch is also run with those entered while another root is the current one and every write mirrored into a signal of that root, whose effect tracks the scenario's signals; both ends of every edge are judged (a computation's dependency entries = its tracked reads; a node's subscriber entries = the dependency entries naming it, per read), with a family that reads a signal several times and then not at all.",
            PURE + "Proved: C03_run_node_spec (after a run the dependency list is exactly the tracked reads of that evaluation, old links removed, new links added, nobody else's change), untracked reads never enter it, symmetric edges through a whole propagation. The untracked FORMS are proved on Reactive/Interp.v itself (Reactive/TrackerFacts.v): untrack(..) and component bodies, disposal and every cleanup callback give back the tracker they found, on(deps, ..) leaves exactly deps appended, get_untracked never touches the tracker and a tracked read appends exactly its node (C03_untrack_never_subscribes, _component_, _cleanups_, _rerun_cleanups_, C03_on_tracks_deps_only, C03_get_untracked_never_subscribes, C03_get_subscribes)."),
    "C16": ("proof", "5.C16", "every use_context returns the nearest enclosing provision according to a reference walk over the program's scope tree, duplicates panic; a second root with sentinel provisions is alive beside the scenario's root and top-level run_in statements are issued from inside it.",
            " Proved on Reactive/Interp.v itself: C16_use_context_nearest (whenever the walk answers it answers with the nearest provision on the ownership chain and changes nothing), functionality of 'nearest', totality when parents are older than children, shadowing, duplicate provision panics, a fresh provision is visible, dispose_children (hence every re-run) clears what the node provided."),
    "C04": ("proof", "5.C04", "cleanups run at most once and exactly once by root disposal, live nodes = nodes reachable through ownership, no dead subscribers, nothing alive after root disposal.",
            " Proved on Reactive/Interp.v itself (Reactive/Own.v, DisposeFacts.v, Isolation.v; whole-block inductions over the 12 mutually recursive functions, axiom-free): after EVERY program that completes the graph is well formed, ownership is a tree (children lists and owner pointers mirror each other, every live node reaches the root through live owners) and per cleanup label emitted + still registered = registered (C04_program_final_state); a disposal leaves the scope dead, every survivor outside its subtree and rooted, no edge mentioning it (C04_dispose_leak_free, _no_edges, _not_alive), with the cleanup conservation law as an equality (C04_dispose_cleanups_exact); a node being disposed is never run again (C04_disposed_node_stays_clean). The proof attempts found the defects F17 (pointed out by a seed author), F20 and F21, all repaired; mapped-list item scopes are C07's. Every scenario ends with an observed RootHandle::dispose() (model: disposal of the root scope; must agree event by event), followed by the creation of new nodes in the re-initialised root with a count of the old handles that report alive (must be 0): this found F27 and F28, repaired. A memo / effect destroyed by a cleanup of its own previous run does not run again (F32, found by an auditor's fuzzer: repaired in code and model, theorems C04_disposed_by_cleanup_not_rerun, C04_rerun_iff_survived; the oracle checks it inside every statement from the logged positions of disposals). NODE IDENTITIES: Interp.v takes node ids from a fresh supply, the code takes them from a slot map that RE-USES slots; Reactive/Arena.v models that slot map literally (versions with their u32 wrap, free list, drain, the old and the new Root::reinit) and Reactive/ArenaFacts.v / Props/C04a.v prove, for every history of insertions / removals / drains with fewer than 2^31-1 insertions, that a removed or drained key is never alive again, that every key handed out is new, and that liveness of handed-out keys is exactly membership in the abstract set of live keys (the refinement that justifies the fresh supply), with the refutation for the old reinit (a fresh map resurrects keys: F28). harness/arena-driver drives the real create_signal / create_child_scope / dispose / RootHandle::dispose and Arena.v must predict the raw key and liveness of EVERY handle after every step; Reactive/ArenaDriver.v lifts the theorems to that compared function itself (every driver state is a history state: no raw key printed for two handles, a handle seen dead stays dead after any continuation, a re-initialisation kills every earlier handle), so the two clauses of the run's oracle are theorems about the model, down to the printed lines (C04a_lines_keys_distinct, C04a_lines_dead_stays_dead); Reactive/ArenaSpec.v adds an arena-free specification of liveness (created and neither disposed -- itself, with its owner or its owner's owner -- nor swept by a re-initialisation since) and proves that the model's liveness IS that specification (C04a_alive_iff_spec, C04a_dispose_exact)."),
    "C10": ("proof", "5.C10", "nothing runs and derived values stay frozen between the markers of an outermost batch; the flush runs each computation at most once and leaves a consistent state; every fourth program with a batch is also run with the batch started while another root is the current one and every write mirrored into a signal of that root (writes to the two roots interleaved inside the batch).",
            " Proved on Reactive/Interp.v (Reactive/BatchFacts.v): inside a batch a write only queues (C10_batch_defers); for EVERY body -- creating effects, disposing scopes, nested batches at any depth -- execution under the batch flag coincides with an interpreter from which propagate / loop / run_node_update have been removed, and the flag survives the body (C10_batched_exec, C10_batching_kept); a nested batch is a pair of brackets, the outermost one is body-without-propagation followed by ONE propagation from the queue (C10_inner_batch, C10_outermost_batch); no run event between the brackets for bodies that create and dispose nothing (C10_batch_quiet_log). The flush: on ReactivePure a batch of writes from a quiescent state leads to a quiescent state (C10_flush_consistent, under the late-read hypothesis = F1). 'Exactly once per surviving affected computation' is judged by the oracle and, on ReactivePure, by the NoDup schedule."),
    "C11": ("proof", "5.C11", "no runtime panic under a disposal injected at every statement position of every callback/cleanup/batch body, and no corruption of later updates.",
            " Proved on Reactive/Interp.v (Reactive/NoPanic.v, WF.v): NO program, whatever it disposes and wherever (effect and memo bodies, cleanups, batch bodies, the running computation itself, ancestors), reaches any of the 15 places where the Rust code indexes the node table without a liveness check (C11_no_runtime_panic_program; from any well-formed state: C11_no_runtime_panic, _dispose); twelve of the sites are guarded in the code itself (C11_guarded_sites, no invariant needed), the other three by the invariant WF (ids in order, subscriber / dependency lists mirror each other and mention live nodes only, nodes being updated have no edges), which holds initially and survives every run (C11_wf_init, C11_wf_preserved, C11_no_stale_edges): later updates start from a sound graph. Proving this is what exposed F20 and F21 (repaired)."),
}
for _pid, (_cat, _sec, _what, _extra) in _R.items():
    CHECKS[_pid] = dict(
        category=_cat,
        technique=("Coq proof over hand-written executable Gallina models + differential correspondence against the real runtime + property oracle" if _cat == "proof"
                   else "executable Gallina model of the reactive runtime + differential correspondence against the real runtime + property oracle; theorems in progress"),
        text=RCOMMON + _what + _extra, note=RTB, design=_sec)

CHECKS["C07"] = dict(
    technique="Coq proof (phase invariants of the keyed diff, induction for the indexed one; no bound) of refinement to the specification on a literal Gallina model + differential correspondence against the real map_keyed/map_indexed + python oracle",
    text=("ListMap/Keyed.v models the update closures of map_keyed and map_indexed literally (vectors updated by index, HashMap as association list, the new_indices / new_indices_next chaining, the three fast "
          "paths). PROVED for ALL states satisfying the state invariant and ALL new lists (axiom-free): one keyed update with unique keys produces exactly the specification's output vector, event list (disposals "
          "of leavers, then creations in input order) and next id, never hits an unwrap / index panic and re-establishes the invariant (C07_keyed_refines), hence every chain of duplicate-free updates from the "
          "initial state refines the specification step by step (C07_keyed_chain) and its event log is a legal history: each call id created once, each scope disposed at most once and only after its creation, "
          "live scopes = scopes of the current output (C07_keyed_history); one indexed update recomputes exactly the changed or new positions and disposes exactly the replaced or truncated ones, for every chain "
          "(C07_indexed_refines, C07_indexed_chain). Counterexamples show both uniqueness hypotheses are needed (duplicate keys leak a scope in model and code alike). The model is compared with the real functions "
          "on ~4000 (quick) / ~17000 (thorough) chains incl. duplicate-key chains, and a python restatement of the property judges the implementation's output (outputs, map_fn calls, cleanups, live item scopes)."),
    note=TB + "HashMap/Vec/NodeHandle are modelled; map_fn is abstracted to a fresh call id plus a scope.",
    design="5.C07")

CHECKS["C19"] = dict(
    technique="Coq proof through Flocq's IEEE-754 correctness theorems over a hand-written binary32 model + bit-exact differential correspondence (debug and release) + oracle",
    text=("Motion/*.v model Lerp for every integer type, f32 and the 19 libm-free easing functions operation by operation on Flocq's BinarySingleNaN. Proved for ALL integers a, b of "
          "magnitude <= 2^23 inside the type's range and ALL finite binary32 scalars: lerp(a,b,0) = a, lerp(a,b,1) = b, min(a,b) <= lerp(a,b,s) <= max(a,b) for 0 <= s <= 1 "
          "(C19_lerp_int_start/end/between, via Bplus/Bminus/Bmult/Bnearbyint/Btrunc correctness, exactness of integers below 2^24 and monotonicity of rounding); totality holds by "
          "construction of the model (float operations and saturating casts only) and is confirmed on the real code for all 2^16 pairs of u8 and i8 x 7 scalars and boundary/random "
          "pairs of every wider type in debug and release builds; easing endpoints within 1e-5 by evaluation of the model (C19_ease_endpoints). The model agrees bit for bit with the "
          "real code on ~113k requests per quick run, incl. every modelled easing function on a 2^12-point grid plus threshold and subnormal points. Proved for ALL finite binary32 x in [0,1] "
          "(~2^30 values, by real-number reasoning: interval calculus over Flocq's correctness theorems, Motion/EasingFinite.v, EasingUnit.v): every one of the 19 functions is finite and stays in [0,1] "
          "(C19_ease_finite, C19_ease_unit_interval), with exact endpoints f(0) = 0, f(1) = 1 (C19_ease_endpoints_exact); the range hypothesis is needed (circ_in 2 is NaN). f32 lerp: finite for "
          "moderate magnitudes, exact at 0, never on the wrong side of the start value (C19_lerp_f32_*); it may miss or overshoot the target at 1 by an ulp and is NaN / infinite for |a|,|b| near "
          "2^127 (refutation examples): the property promises endpoints for integers only, and no panic. The six libm-based easing functions and f64/array lerp are judged by the oracle only."),
    note=TB + "Flocq 4.1 and the Coq Reals with their standard axioms (ClassicalDedekindReals.sig_forall_dec, sig_not_dec, functional_extensionality_dep, Classical_Prop.classic); the platform's f32 arithmetic and LLVM's powi(x,2) are compared, not verified.",
    design="5.C19")

SSRNOTE = TB + "the HTML tokenizer of Ssr/Html.v as the reading of the HTML standard for the emitted subset; html-escape is modelled from its tables and compared on every run; raw-text elements, inner_html, duplicate attribute names, CR/NUL and full-parser tree fix-ups are outside the vocabulary."
CHECKS["C08"] = dict(
    technique="Coq proof (round trip tokenize (render t) = tokens t by induction over the tree, lexer lemmas, fuel sufficiency; no bound) on a Gallina model of the SSR renderer with a Gallina HTML tokenizer as parse-back specification + byte-exact differential correspondence + oracle on the real bytes",
    text=("Ssr/View.v models the server-side build of the shared view vocabulary (elements incl. void/SVG/custom, static and dynamic text, dynamic views, Show, Keyed/Indexed, components, NoHydrate/NoSsr, "
          "static/dynamic/None/boolean attributes, hydration keys) and render_recursive. PROVED for EVERY view and state with ARBITRARY byte strings as texts and attribute values (Ssr/RoundTrip.v, axiom-free): "
          "the output tokenizes back to exactly the tokens of the tree that was built (C08_render_roundtrip, C08_render_to_string_roundtrip); the structural tokens (tags, attribute names, end tags, comments) depend "
          "only on the tree with every string erased, so text and attribute values cannot introduce elements, attributes or comments (C08_injection_safe, _2); void elements get no end tag; false boolean, "
          "false dynamic boolean and None attributes leave the output unchanged. Hypothesis wf_view: tag and attribute names are names (sycamore takes them from static identifiers and never escapes them; "
          "counterexamples show each clause is needed) -- the check evaluates wf_view on every generated view. Every run compares the model's bytes with render_to_string's bytes on ~2400 (quick) / ~35000 (thorough) "
          "views incl. every string of length <= 2/3 over a metacharacter alphabet in each kind of slot (as owned strings and, in one family, as one string literal used as text and as attribute values of the same view), and applies the Gallina tokenizer to the REAL output: it must tokenize back to the view that was built."),
    note=SSRNOTE, design="5.C08")
CHECKS["C12"] = dict(
    technique="Coq proofs on the SSR build model (key discipline) and on the runtime model (reinit) + byte-exact differential correspondence over render sequences + oracle",
    text=("Proved: within one build and one suspense scope the hydration keys appearing in the output are strictly increasing in element-creation order, unique, carry the scope's suspense number "
          "and lie between the counter before and after (C12_keys_in_creation_order, C12_keys_unique, for every view, state and nesting); Root::reinit leaves exactly one live node, an empty queue, "
          "no tracker, no pending batch and restarted ids whatever the previous state (C12_reinit_fresh). History independence of sync renders is what the correspondence establishes: in sequences of "
          "2-5 renders the real bytes equal the model's bytes (a pure function of state and view) at every position, the same view renders identically after different histories, keys are unique and "
          "ordered, and the live node count at the start of every render is constant. Sequences mixing sync, blocking and streaming renders (with complete and incomplete gate schedules) get the oracle only: same (mode, view, completion order) => same bytes after any history, keys unique per render and dense per suspense scope, constant node count per mode."),
    note=SSRNOTE, design="5.C12")

ATB = TB + "tokio's LocalSet, futures::Abortable and oneshot channels are replaced by explicit schedules and three-line transition rules (compared on every run, not verified)."
CHECKS["C13"] = dict(
    technique="Coq proof (counter invariant by induction over all schedules) on a transition system of sycamore-futures' suspense scopes + differential correspondence over all completion orders + oracle; rendering half: Coq proofs (invariants over the streaming state machine, all views and gate orders) on Async/Stream.v + correspondence with the real sync / blocking / streaming renders + oracle simulating the inline script",
    text=("Async/Suspense.v models suspense scopes (counter owned by the enclosing scope, parent links), scoped tasks made of chained awaits and their guards. Proved for every program with distinct "
          "task ids, EVERY schedule of task steps and scope disposals and every boundary whose chain of enclosing boundaries is alive: the counter of a boundary equals the number of unfinished tasks "
          "registered under it (CInv, established by init and preserved by every step: C14_counter_invariant_reachable) and therefore is_loading = some unfinished task under the boundary or an "
          "enclosing one (C13_is_loading_iff_pending), and use_is_loading_global -- what the blocking render waits on -- is true exactly while some unfinished task holds a guard of a boundary whose counter is alive (C13_global_loading_iff; the model's flag is compared with the real one after every step of every C14 scenario); the report is a function of the set of unfinished tasks, hence independent of completion order (C13_report_depends_on_pending_set). Every run "
          "drives the real create_suspense_scope / create_suspense_task / is_loading / use_is_loading on a current-thread tokio runtime with explicit schedules over 8 shapes of trees of <= 3 "
          "boundaries, ALL orders in which <= 5 awaits complete, and compares every observation with the model; the oracle restates the iff on the observed flags. Rendering half: Async/Stream.v models sync / blocking / "
          "streaming SSR over views of nested, sibling and dynamically created boundaries with gated async components (the harness's richer vocabulary -- dynamic blocks, Transition, resources read by dynamic views, flag-setting tasks and the content they create or remove -- is translated inside the development by Async/StreamX.v; Props/C13x.v pins what that translation claims); it is compared with the REAL render_to_string / render_to_string_await_suspense / "
          "render_to_string_stream (ssr-driver, gates opened in every order, incl. incomplete schedules) on 257 + 48 (quick) / 400+ (thorough) (view, order) pairs, incl. Transition boundaries, resources read by dynamic views, client resources, boundaries / tasks disposed in the middle of the render by a re-rendering dynamic view, and content created or removed by a task registered under another boundary (flip / when / unless; a lenient family judges only the sync and blocking renders and the stream's liveness when the removed content lies in a region already sent): step at which the blocking render returns and its "
          "content, which boundaries are streamed after which gate, final document; the oracle simulates the inline script on the real chunks (a fragment whose markers are not yet in the document = child "
          "before parent), checks shell once, each boundary once, shell + fragments = blocking result = everything resolved. Found and fixed F14 (grandchild streamed before its parent). PROVED on Stream.v for ALL views and ALL gate "
          "orders (Async/StreamFacts.v, axiom-free): the blocking render returns at the first step at which no boundary has a pending task and hangs only if no prefix finishes every task (C13r_blocking_returns_when_finished, "
          "_never), its result is the fully resolved content (C13r_blocking_content); each boundary is streamed at most once (C13r_stream_once), never before its lexical parent (C13r_stream_parent_first), the inline "
          "script always finds its markers (C13r_stream_script_never_fails), every boundary that is not loading has been streamed (C13r_stream_live), and once all tasks have finished shell + fragments = the blocking "
          "result = everything resolved, whatever the order (C13r_stream_equals_blocking). Hypotheses (evaluated on every generated view): unique boundary ids, no async component outside the boundaries; "
          "counterexamples show both are needed. A Resource read under a boundary (Async/ResourceSus.v: the guards / registered scopes / task-guard bookkeeping of resource.rs that drives the boundary's counter; "
          "ResourceSusFacts.v): after every history of dependency writes and completions the boundary reports loading exactly while the resource's latest fetch is outstanding (C13s_boundary_loading_iff_resource_loading, "
          "_iff_latest_outstanding); compared line by line with the real sycamore-web Resource under a real boundary on the histories of C15."),
    note=ATB, design="5.C13")
CHECKS["C14"] = dict(
    technique="Coq proof (absorbing task status, panic-freedom and counter invariant, by induction over all schedules) on the transition system + fault enumeration (a disposal at every step for every scope) against the real executor + oracle",
    text=("Schedules may start with a disposal BEFORE the executor's first step (oracle only: the transition system has no state between spawn and first poll): none of the scope's tasks may ever be polled. Same transition system with cancellation: disposing a scope aborts the tasks spawned under it; the executor later drops them and their guards. Proved for every state, schedule and "
          "disposal point: a pending task under the disposed scope becomes Cancelled and no later step of ANY continuation polls or completes it (C14_no_poll_after_dispose, "
          "C14_never_polled_again); no step, task drop or final root disposal panics (C14_no_panic, for the fixed guard; Example pinned_panics shows the panic of the code as pinned); after a "
          "disposal the counter of every surviving boundary equals the number of tasks still pending under it (C14_counters_released, C14_counter_invariant_reachable); after the disposal of the root nothing is loading, whatever was pending (C14_nothing_loading_after_root_disposal). Every run inserts a disposal "
          "of every scope at every position of several schedules over 5 base trees (348 cases quick), drains the executor, and compares poll logs, panics caught by the hook and loading flags with "
          "the model; the oracle restates the three clauses on the observed logs."),
    note=ATB, design="5.C14")
CHECKS["C15"] = dict(
    technique="Coq proof (invariant by induction over all event sequences) on a transition system of Resource + differential correspondence over all completion orders + oracle",
    text=("Async/Resource.v: dependency writes start a new fetch and kill the previous one, completions apply only to a live fetch. Proved for EVERY sequence of writes and completions: at most the "
          "latest fetch is live and is_loading is exactly its liveness (C15_loading_iff_latest_outstanding), a completion of any other fetch changes nothing (C15_stale_completion_ignored), the "
          "completion of the latest installs its result and ends loading (C15_latest_completion_wins), a write keeps the old value readable (C15_old_value_readable), the value is always the "
          "result of some started fetch. The system is compared with the real create_isomorphic_resource under 0-3/0-4 writes x every subset, order and placement of completions (incl. never, "
          "stale, repeated) and the oracle restates the three clauses on the observed sequence. Variants, each with the same model or a proved reduction to it: a feedback edge from the value to the "
          "dependency behind a selector (C15_feedback_is_plain); a PAIR of dependencies on((d, d2), ..) with each write going to one of them; a fetch future that itself moves the dependency on in its "
          "last poll before returning (superseded before it can deliver: C15_self_write_is_plain; this variant found F25, repaired). Oracle only: a helper effect that writes a dependency inside the propagation of a dependency write (`clamp`: page clamped to the page count; `reset`: a query change resets the page), judged on the observed list of started fetches: a fetch was started for the latest dependency values, its result is the value once it completed, the previous value until then; for both the transition system fed with one write per fetch the implementation started must also agree with it at every step."),
    note=ATB + " The abort of the previous fetch by the effect's cleanup is part of the runtime covered by C04/C14.", design="5.C15")

DTB = ("Trusted: the in-process DOM harness/dom/shims (web-sys / js-sys / wasm-bindgen stand-ins: WHATWG pre-insert / remove / replace, fragment flattening, an HTML parser for server output) in place of a browser; "
       "tools/domgen.py, which regenerates the crate root of the client build from /repo's lib.rs with the client polarity so that dom_node.rs / hydrate_node.rs / iter.rs / components.rs etc. are compiled verbatim; the drivers and python oracles. ")
CHECKS["C06"] = dict(
    technique="Coq proof (loop invariant, all seven branches, termination measure; no bound) on a literal Gallina model of reconcile_fragments + differential correspondence against the real routine on an in-process DOM + oracle, incl. chains through the real Keyed / Indexed",
    text=("Dom/Reconcile.v models reconcile_fragments branch by branch over an abstract child list (move semantics of insertBefore / replaceChild, the one-shot map, the in-place write of the swap branch). "
          "PROVED for ALL old / new node sequences and siblings (Dom/ReconcileProof.v, 1300 lines, axiom-free): if the child list before (pre ++ a ++ post) and the demanded list after (pre ++ b ++ post) are "
          "duplicate-free and a is non-empty, the routine raises no DOM exception, terminates within its fuel, leaves exactly pre ++ b ++ post and touches only nodes of a or b (C06_reconcile_spec, C06_reconcile_correct; "
          "C06_reconcile_correct_marker for the call pattern of Keyed / Indexed, where the end marker makes a non-empty); counterexamples show each hypothesis is needed. The model is compared with the REAL routine "
          "(through the add-only hook verif_reconcile_fragments, compiled natively against the DOM shims) on ~12k (quick) / ~125k (thorough) cases incl. random sequences of length 5-40 biased to each branch; "
          "part 2 drives the real Keyed / Indexed components through chains of 2-4 list updates (all chains of 3 lists over 3 keys in thorough) on the in-process DOM: region = fresh render of the new list, "
          "retained items (same key / same position and value) and outside nodes keep their DOM node."),
    note=DTB + " Linked to the client model by theorem (Dom/ClientReconcile.v): for every list construct of Dom/Client.v, every write and every well-formed set of siblings, the call the real Keyed / Indexed make (old region + end marker, new top-level nodes + end marker) satisfies the routine's hypotheses and returns exactly the child list that the updated instance prescribes, touching only the region (C06c_list_reconcile, _in_parent); retained keys / positions keep the same skeleton, hence the same nodes (C06c_keyed_retained, C06c_indexed_retained).", design="5.C06")
CHECKS["C05"] = dict(
    technique="Coq proof (faithfulness invariant of the in-place updater, identity freshness and stability; all views, states and write sequences) on an instance-tree model of the client back end + correspondence of the model with the real DomNode code on an in-process DOM (structure and surviving nodes after every write) + self-differential oracle",
    text=("Dom/Client.v models the client back end over the shared view vocabulary as an instance tree with node identities: create (fresh render), update (what one signal write does in place: dynamic text / attributes "
          "patched, a dynamic view re-rendered between its markers only when its own input was written, Show inserting / removing its children, Keyed reusing nodes by key, Indexed by position and value), dom_of. PROVED for EVERY "
          "view, state and sequence of writes (axiom-free): after every write the DOM without identities equals a fresh render of the current state (C05_fresh_render_every_step, via the invariant C05_update_faithful, which "
          "includes the content of hidden Show and of list items); ids are fresh, pairwise distinct and stay so (C05_update_ids, C05_run_dom_nodup; unique keys needed for Keyed, shown necessary); a write that no dynamic view / "
          "Show / list reads -- in particular every string write -- changes no identity at all (C05_nonstructural_write), and for a structural write every node outside the re-rendered dynamic views, toggled Shows and "
          "non-retained list items is the same node (C05_stable_nodes_survive). The model is compared with the REAL client code (compiled natively against the DOM shims) on 984 (quick) / 8341 (thorough) scenarios: node "
          "structure after every write and which nodes survive it; the real code is also compared with itself (in-place update vs fresh render in a second root) with an identity oracle. The model is the intended semantics: "
          "views on which the real code departs from it are exactly known findings F9 and F15 (snapshot semantics of Show / list items), excluded from the correspondence by their structural matchers."),
    note=DTB + " The tie between Dom/Client.v and dom_node.rs / components.rs / iter.rs is the correspondence, not a translator.", design="5.C05")
CHECKS["C09"] = dict(
    technique="Coq proof relating the server build model and the client model (same visible tree, same elements in hydration-key order, same behaviour under writes; all views and states) + end-to-end differential check: real SSR output -> in-process DOM -> real hydration code; identity of adopted elements, visible tree, later updates vs fresh client render and vs the client model",
    text=("PROVED on Ssr/View.v and Dom/Client.v for every view without NoSsr and every state (Dom/ServerClient.v, axiom-free): the server output and a client render show the same visible tree (C09_visible_tree: hydration "
          "has nothing to change); the elements carrying a hydration key on the server are, in key order, exactly the elements the client creates outside NoHydrate, and the final key counter is their number, so every "
          "stamped element is requested exactly once (C09_keys, for adoptable views: no element under a Show that is off = known finding F10, shown by counterexample); after any sequence of writes the client view shows what "
          "the server would render for the new state (C09_updates_agree, from C05's theorem). THE ADOPTION WALK ITSELF (Dom/Hydrate.v: claim by key from the registry, adoption of dynamic text and markers by search among the parent's children; "
          "server_dom = the server output as a browser parses it) is proved for EVERY view of the class `hydratable` and every state (Dom/Hydrate{Spec,Rel,Forest,Lay,Walk,Server,Facts,Client}.v, ~2200 lines, axiom-free): "
          "hydrating the server DOM succeeds; (a) the element skeleton is the server's with the stamp on exactly the keyed elements (every server element still there, in place, none re-created); (c) the visible tree is "
          "unchanged; (b)/(d) read back per DOM parent, every hydrated dynamic text is a fresh text node holding the signal's value with its marker gone, every hydrated dynamic-view marker is adopted, everything under "
          "NoHydrate is still in server form (C09_hydrate_ok, C09_hydrate_nodes); the result shows what a client render shows (C09_hydrate_client). Each restriction of the class is justified by a refutation evaluated on the "
          "model (Show off = F10, NoHydrate slot before a hydrated slot of the same kind = F16, lists / NoSsr / Show over non-elements = F11-F13, view-set data-hk, children of void elements), and on two enumerations of "
          "small views the class is exactly where all clauses hold (C09h_class_exact_on_enumeration). Tie to the code on every run: Hydrate.v is given the REAL parsed server DOM and must predict the DOM right after the "
          "real hydration (structure and surviving server nodes); server_dom must equal the parsed real server string; `hydratable` is evaluated on every generated view and the real hydration of every view in the class must "
          "succeed and pass the oracle. THE LAST SENTENCE ('afterwards the view reacts exactly as a client-rendered one') is proved too (Dom/HydrateInst.v = the same walk returning also the reactive instance, with the DOM component proved equal to hydrate's; Dom/Hydrate{InstFacts,Own,OwnWalk,Ids,React}.v, Props/C09i.v, ~2300 lines, axiom-free): for every hydratable view the part of the hydrated DOM the view owns IS the DOM of the instance, its elements are pairwise distinct server elements (C09i_hydrated); when the view is live (no non-empty NoHydrate in the part that is built: NoHydrate content is inert on the client by design, shown necessary by C09i_nohydrate_inert) the instance is, identities erased, the instance of a fresh client render, hence after ANY sequence of writes the hydrated view shows, output by output, what the client-rendered view shows = the fresh render of the state reached (C09i_reacts, C09i_run_from), and which adopted nodes a write keeps follows ClientStable.v (C09i_keeps, C09i_ids, C09i_run_ids). Tie on every run: hydratei is evaluated on the REAL parsed server DOM, updated through the scenario's writes, and after hydration and after every write its elements (adopted server node or new) must be those of the real DOM (~400 views quick). End-to-end check: "
          "for ~500 (quick) / ~6000 (thorough) random views plus hand-picked soft spots the server string produced by the real native SSR build is parsed into the in-process DOM and hydrated by the real "
          "HydrateNode code; checked: no panic, every server element adopted exactly once in place (ids before = ids after, all and only keyed elements stamped), visible tree unchanged, after 0-4 writes the visible tree "
          "equals a fresh client render and follows Dom/Client.v. Genuine defects found and recorded as known findings F9-F13, F15, F16."),
    note=DTB, design="5.C09")

NOT_YET = {}


def main():
    props = [json.loads(l)["id"] for l in open(os.path.join(ROOT, "properties.jsonl"))]
    checks = []
    for pid in props:
        if pid not in CHECKS:
            continue
        c = CHECKS[pid]
        checks.append({
            "property_id": pid,
            "quick_cmd": "python3 tools/check.py %s --tier quick" % pid,
            "thorough_cmd": "python3 tools/check.py %s --tier thorough" % pid,
            "evidence_file": "/verif/evidence/%s.json" % pid,
            "replay_cmd_template": "python3 tools/check.py %s --replay {path}" % pid,
            "engine": "coq-proof+correspondence",
            "level_claimed": {"category": c.get("category", "proof"), "text": c["text"], "design_ref": c["design"]},
            "level_note": c["note"],
            "technique": c["technique"],
        })
    na = [{"property_id": p, "reason": NOT_YET.get(p, "check not built yet (see DESIGN.md section 9 for the build order); nothing is claimed")}
          for p in props if p not in CHECKS]
    hooks_path = os.path.join(ROOT, "hooks.json")
    hooks = json.load(open(hooks_path)) if os.path.exists(hooks_path) else {"source_commits": []}
    m = {
        "version": 1,
        "setup_cmd": "python3 tools/setup.py",
        "hooks": {
            "guard": "cargo feature `verif` (sycamore-reactive, sycamore-web); off by default",
            "enable": "harness crates depend on /repo/packages/* by path with features = [\"verif\"]",
            "baseline_off_cmd": "cd /repo && cargo test --workspace --no-fail-fast --offline",
            "source_commits": hooks["source_commits"],
            "add_only": True,
        },
        "engines": [{
            "name": "coq-proof+correspondence", "path": "/verif/tools/check.py",
            "serves_properties": [c["property_id"] for c in checks],
            "kind_free_text": "Coq 8.16 theorems over hand-written executable Gallina models (coq/theories), tied to /repo by differential correspondence runs (harness/* Rust drivers vs vm_compute evaluation of the model) and judged by python oracles restating each property",
        }],
        "checks": checks,
        "not_applicable": na,
        "notes": "See DESIGN.md. Fixed defects and known findings: known_findings.json.",
    }
    with open(os.path.join(ROOT, "MANIFEST.json"), "w") as f:
        json.dump(m, f, indent=1)
    print("MANIFEST.json written: %d checks, %d not claimed" % (len(checks), len(na)))


if __name__ == "__main__":
    main()
