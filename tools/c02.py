"""C02 -- propagation is glitch-free: at most one, consistent run per change (DESIGN.md 5.C02)."""
import c01
import rcheck
import reactive_gen

PID = "C02"
FEATS = {"untracked": 0.15, "selector": 1.5, "effect": 1, "nested": 0.3, "scope": 0.3, "dispose": 0.15, "batch": 1,
         "nested_batch": 0.2, "on": 0.1, "untrack_block": 0.2, "late_create": 0.5}


def diamonds(rng, n):
    """diamonds of depth > 1, fan-in through coarse selectors, children scheduled with their owner"""
    out = []
    for i in range(n):
        k = rng.choice([2, 3])
        depth = rng.randint(2, 4)
        prog = [("signal", 1, ("lit", rng.randint(0, 3)))]
        layer = [1]
        x = 2
        for d in range(depth):
            new = []
            for _ in range(rng.randint(1, 3)):
                a, b = rng.choice(layer), rng.choice(layer)
                e = ("add", ("get", a), ("get", b))
                c = rng.random()
                if c < 0.35:
                    prog.append(("selector", x, rng.choice([0, k]), ("body", None, [], ("mod", e, k) if rng.random() < 0.5 else e)))
                elif c < 0.5 and d > 0:
                    g = rng.choice(layer)
                    prog.append(("memo", x, ("body", None, [], ("ite", ("lt", ("lit", 1), ("get", g)), ("get", a), ("get", b)))))
                else:
                    prog.append(("memo", x, ("body", None, [], e)))
                new.append(x)
                x += 1
            layer = new + ([rng.choice(layer)] if rng.random() < 0.3 else [])
        # an effect that creates an inner effect reading the same signal
        if rng.random() < 0.5:
            a = rng.choice(layer)
            prog.append(("effect", x, ("body", None, [("effect", x + 1, ("body", None, [], ("get", a)))], ("add", ("get", a), ("get", 1)))))
            x += 2
        else:
            prog.append(("effect", x, ("body", None, [], ("add", ("get", layer[0]), ("get", layer[-1])))))
            x += 1
        for _ in range(rng.randint(2, 5)):
            prog.append(("set", 1, ("lit", rng.randint(0, 5))))
        out.append(prog)
    return out


def fanin_batches(rng, n):
    """several signals, chains of different depth below each, fan-in nodes mixing direct reads with reads through the
    chains; histories of batches writing 2-3 different signals in every order (multi-source propagation)"""
    out = []
    for i in range(n):
        nsig = rng.choice([2, 2, 3])
        prog = [("signal", j + 1, ("lit", j)) for j in range(nsig)]
        x = nsig + 1
        tips = {}
        for j in range(nsig):
            cur = j + 1
            chain = [cur]
            for _ in range(rng.randint(0, 3)):
                if rng.random() < 0.25:
                    prog.append(("selector", x, rng.choice([0, 2]), ("body", None, [], ("add", ("get", cur), ("lit", rng.randint(0, 1))))))
                else:
                    prog.append(("memo", x, ("body", None, [], ("mul", ("lit", rng.choice([1, 2])), ("get", cur)))))
                cur = x
                chain.append(x)
                x += 1
            tips[j + 1] = chain
        for _ in range(rng.randint(1, 3)):
            a, b = rng.sample(range(1, nsig + 1), 2)
            ea = ("get", rng.choice(tips[a]))
            eb = ("get", rng.choice(tips[b]))
            kind = rng.random()
            body = ("body", None, [], ("add", ea, eb))
            if kind < 0.6:
                prog.append(("memo", x, body))
            elif kind < 0.8:
                prog.append(("effect", x, body))
            else:
                prog.append(("selector", x, 0, body))
            x += 1
        for _ in range(rng.randint(2, 4)):
            ws = rng.sample(range(1, nsig + 1), rng.randint(2, nsig))
            ss = [("set", w, ("lit", rng.randint(0, 9))) for w in ws]
            if rng.random() < 0.3:
                ss.append(("set", ws[0], ("lit", rng.randint(0, 9))))
            prog.append(("batch", ss))
        out.append(prog)
    return out


def owned_derived():
    """a computation that reads a memo / selector it created itself in the same run: the owned node has inputs of its own, so the
    owner must be ordered after it and re-run when it changes, and whoever reads the owner must see the up-to-date value"""
    out = []
    for ok in ("memo", "selector", "effect"):
        for nk in ("memo", "selector", "chain"):
            for how in ("plain", "batch", "extra-input"):
                inner_body = ("body", None, [], ("mul", ("get", 1), ("lit", 2)))
                inner = [("memo", 4, inner_body)] if nk == "memo" else [("selector", 4, 0, inner_body)]
                if nk == "chain":
                    inner = [("memo", 6, inner_body), ("memo", 4, ("body", None, [], ("add", ("get", 6), ("lit", 10))))]
                ret = ("add", ("get", 4), ("lit", 1)) if how != "extra-input" else ("add", ("get", 4), ("get", 2))
                ob = ("body", None, inner, ret)
                owner = (ok, 3, ob) if ok != "selector" else ("selector", 3, 0, ob)
                prog = [("signal", 1, ("lit", 0)), ("signal", 2, ("lit", 0)), owner]
                if ok != "effect":
                    prog.append(("effect", 5, ("body", None, [], ("add", ("get", 1), ("get", 3)))))
                    prog.append(("memo", 7, ("body", None, [], ("add", ("get", 3), ("get", 2)))))
                for v in (1, 2, 7):
                    w = [("set", 1, ("lit", v))] + ([("set", 2, ("lit", v + 1))] if how != "plain" else [])
                    prog += [("batch", w)] if how == "batch" else w
                out.append(prog)
    return out


def gen(tier, rng):
    n_small, n_dia, n_rand = (500, 400, 500) if tier == "quick" else (8000, 6000, 8000)
    cases = [("small:%d" % i, p) for i, p in enumerate(c01.small_family(n_small, rng))]
    cases += [("diamond:%d" % i, p) for i, p in enumerate(diamonds(rng, n_dia))]
    cases += [("owned-derived:%d" % i, p) for i, p in enumerate(owned_derived())]
    cases += [("fanin-batch:%d" % i, p) for i, p in enumerate(fanin_batches(rng, 400 if tier == "quick" else 5000))]
    cases += [("random:%d" % i, p) for i, p in
              enumerate(reactive_gen.random_programs(rng.randrange(1 << 30), n_rand, FEATS, (3, 8), (2, 6)))]
    return cases


def nontrivial(prog, steps):
    """a propagation in which at least three computations ran"""
    return any(len(rcheck.run_spans(st["events"])) >= 3 for k, st in enumerate(steps) if k < len(prog) and prog[k][0] in ("set", "batch"))


def oracle(prog, steps):
    """glitch oracle, plus: a derived node that some computation read during a statement and that is out of date when the statement
    returns (its tracked inputs changed since it was computed and it was not re-run) was read out of date"""
    fails = rcheck.glitch_failures(prog, steps)
    for f in rcheck.consistency_failures(prog, steps):
        k = f["step"]
        if k >= len(prog) or prog[k][0] not in ("set", "batch"):
            continue
        readers = [r["name"] for r in rcheck.run_spans(steps[k]["events"]) if any(x == f["node"] for (x, _, _, _, _) in r["reads"])]
        if readers and f["kind"] != "effect":
            fails.append({"oracle": "read-out-of-date", "step": k, "node": f["node"], "holds": f["holds"], "up_to_date_value": f["fresh_value"],
                          "read_by": readers[:3], "known": f["known"]})
    return fails


def main(argv):
    return rcheck.run(
        PID, argv, module="C02", theorems=['C02_one_entry_per_scheduled_node', 'C02_schedule_has_no_duplicates', 'C02_runs_only_if_dirty', 'C02_step', 'C02_write_schedule',
                                          'C02_write_reads_settled', 'C02_write_runs_only_if_fired', 'C02_write_runs_if_fired', 'C02_untracked_read_sees_stale_value'], bridge=1500, extra_targets=["theories/Reactive/Bridge.vo"], gen=gen, oracle=oracle, nontrivial=nontrivial,
        rule=("effect-write-free programs: the C01 small family, layered diamonds (depth 2-4, fan-in through selectors with "
              "coarse equality, conditional reads, effects creating inner effects), computations that read a memo / selector they created themselves, fan-in graphs under batches that write several "
              "signals in every order (multi-source propagation), random programs; histories of writes and "
              "batches; non-trivial = some propagation ran >= 3 computations; distinct = distinct program text"),
        assumptions=["programs whose effects do not write signals (as the property states)",
                     "known finding F1 (late subscription) recognised structurally"])
