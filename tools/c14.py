"""C14 -- async tasks are cancelled with their scope and release what they hold (DESIGN.md 5.C14)."""
import random

import asyncgen
import vlib

PID = "C14"
THEOREMS = ['C14_no_poll_after_dispose', 'C14_never_polled_again', 'C14_no_panic', 'C14_counters_released', 'C14_counter_invariant_reachable',
            'C14_nothing_loading_after_root_disposal']

BASES = [
    [("scope", 9, [("sus", 1, [("task", 1, 2)])]), ("sus", 2, [("scope", 8, [("task", 2, 2)])])],
    [("sus", 1, [("scope", 7, [("task", 1, 3), ("spawn", 2, 2)]), ("task", 3, 1)])],
    [("scope", 9, [("sus", 1, [("sus", 2, [("scope", 8, [("task", 1, 2)])]), ("task", 2, 1)])])],
    [("scope", 9, [("scope", 8, [("spawn", 1, 3)]), ("sus", 1, [("task", 2, 1)])]), ("task", 3, 2)],
    [("sus", 1, [("sus", 2, [("task", 1, 1)]), ("sus", 3, [("scope", 7, [("task", 2, 2)])])])],
    # an enclosing scope spawns first, a descendant later (tasks of several scopes alive at the same time)
    [("spawn", 1, 3), ("scope", 9, [("spawn", 2, 2), ("scope", 8, [("spawn", 3, 2)])])],
    [("sus", 1, [("task", 1, 3), ("scope", 9, [("task", 2, 2)]), ("sus", 2, [("task", 3, 1), ("scope", 8, [("task", 4, 2)])])])],
    [("scope", 9, [("task", 1, 2), ("sus", 1, [("scope", 8, [("task", 2, 2), ("spawn", 3, 1)])])])],
    # resources read while loading: the guards are held by a signal of the scope that is disposed
    [("sus", 1, [("scope", 9, [("res", 1, 2)]), ("task", 2, 1)])],
    [("scope", 9, [("sus", 1, [("res", 1, 1), ("sus", 2, [("scope", 8, [("res", 2, 2), ("task", 3, 1)])])])])],
    [("sus", 1, [("scope", 9, [("res", 1, 1), ("scope", 8, [("res", 2, 2)])])]), ("scope", 7, [("res", 3, 1)])],
]


def gen(tier, rng):
    """for every await point of every task and every placement of a scope disposal between two executor steps"""
    cases = []
    for prog in BASES:
        tasks, _, scope_parent = asyncgen.info(prog)
        gos = [t for t, (n, _, _) in tasks.items() for _ in range(n)]
        orders = [gos, list(reversed(gos))]
        for _ in range(2 if tier == "quick" else 12):
            o = gos[:]
            rng.shuffle(o)
            orders.append(o)
        for order in orders:
            steps = [("go", t) for t in order]
            for pos in range(len(steps) + 1):
                for sid in scope_parent:
                    cases.append((prog, steps[:pos] + [("dispose", sid)] + steps[pos:]))
                    if tier == "thorough":
                        for sid2 in scope_parent:
                            if sid2 != sid and pos + 1 <= len(steps):
                                cases.append((prog, steps[:pos] + [("dispose", sid)] + steps[pos:pos + 1] + [("dispose", sid2)] + steps[pos + 1:]))
    return cases


def oracle(prog, steps, lines, glob=None):
    tasks, sus_parent, scope_parent = asyncgen.info(prog)
    fails = []
    dead = set()
    left = {t: n for t, (n, _, _) in tasks.items()}
    cancelled = set()

    def under(sid, owners):
        return any(o == sid or o in dead for o in owners)

    for k, l in enumerate(lines):
        evs, loads = asyncgen.parse_line(l)
        if k > 0 and k - 1 < len(steps):
            s = steps[k - 1]
            if s[0] == "dispose":
                # the subtree of s[1] dies
                for sid, par in scope_parent.items():
                    chain, x = [], sid
                    while x is not None:
                        chain.append(x)
                        x = scope_parent.get(x)
                    if s[1] in chain:
                        dead.add(sid)
                for t, (n, owners, sus) in tasks.items():
                    if left[t] > 0 and any(o in dead for o in owners):
                        cancelled.add(t)
            elif left.get(s[1], 0) > 0 and s[1] not in cancelled:
                left[s[1]] -= 1
        for e in evs:
            if e.startswith("PANIC"):
                fails.append({"step": k, "what": "panic (at disposal or when the executor drops the cancelled task)", "event": e})
            elif e.startswith(("poll:", "done:")):
                t = int(e.split(":")[1])
                if t in cancelled:
                    fails.append({"step": k, "what": "task polled after its scope was disposed", "event": e})
        if glob is not None and k < len(glob) and glob[k] is not None:
            # use_is_loading_global(): some task registered under a boundary is unfinished (what the blocking render waits on)
            eg = any(left[t] > 0 and t not in cancelled and sus is not None for t, (n, _, sus) in tasks.items())
            if glob[k] != str(int(eg)):
                fails.append({"step": k, "what": "use_is_loading_global() panics or is wrong", "reported": glob[k], "expected": int(eg)})
        for b, (outer, inner) in loads.items():
            chain, x = [], b
            while x is not None:
                chain.append(x)
                x = sus_parent.get(x)
            expect = any(left[t] > 0 and t not in cancelled and sus in chain for t, (n, _, sus) in tasks.items() if sus is not None)
            if outer not in ("dead", str(int(expect))):
                fails.append({"step": k, "what": "loading counter of a surviving boundary not released / wrong", "boundary": b,
                              "reported": outer, "expected": int(expect)})
    return fails


def main(argv):
    a, seed = vlib.args(argv)
    chk = vlib.Check(PID, a.tier, seed, "proof")
    rng = random.Random(seed * 6007 + 14)
    chk.trusted = ["Coq 8.16.1 kernel + vm_compute", "hand-written LTS coq/theories/Async/Suspense.v tied to sycamore-futures by this correspondence run",
                   "harness/futures-driver (instrumented futures log every poll; panic hook sees panics swallowed by tokio)", "tools/asyncgen.py, tools/c14.py",
                   "modelled, not verified: tokio LocalSet, futures::Abortable, oneshot"]
    chk.rule = ("fault enumeration: 11 base trees of scopes / suspense boundaries (depth <= 3) with tasks, plain spawned futures and resources (sycamore-web Resource read while loading) of 1-3 chained awaits; for several orders of the "
                "awaits, a scope disposal inserted at EVERY position of the schedule for EVERY scope (pairs of disposals in thorough); the executor is "
                "drained at the end; non-trivial = the disposal hit a scope with a pending task; distinct = distinct (tree, schedule)")
    ok, msg = vlib.proof_step(chk, "C14", ["theories/Props/C14.vo"], THEOREMS)
    broken = [] if ok else ["theorem: " + msg]
    okb, outb, binp = vlib.cargo_build("futures-driver")
    chk.obligation("cargo build futures-driver against /repo", okb, outb)
    if not okb:
        chk.violation({"property": PID, "broken": "harness build", "output": outb[-2000:]}, no_input=True)
        return chk.finish()
    cases = gen(a.tier, rng)
    try:
        impl = asyncgen.run_impl(binp, cases)
    except RuntimeError as e:
        chk.violation({"property": PID, "broken": "driver run", "detail": str(e)}, no_input=True)
        return chk.finish()
    # root reuse: the same tree built again in the root right after its disposal, before the executor dropped the cancelled tasks
    again = list(asyncgen.AGAIN)
    glob = [list(g) for g in asyncgen.GLOB]
    afail = []
    for (prog, steps), lines, ag in zip(cases, impl, again):
        if not ag or ag[0] != lines[0]:
            afail.append({"program": asyncgen.sx_nodes(prog), "schedule": asyncgen.sx_steps(steps) + " then RootHandle::dispose and the same tree built again in the same root",
                          "failures": [{"what": "the cancelled tasks of the disposed root disturbed the new boundaries (or a panic): the rebuilt tree does not show what a fresh one shows",
                                        "fresh": lines[0], "rebuilt": ag[0] if ag else "(nothing)"}], "output": lines})
    chk.obligation("oracle: after the final root disposal the same tree built again in the re-used root (before the executor drops the cancelled tasks) shows what a fresh tree shows (%d scenarios)" % len(cases),
                   not afail, str(afail[:1]))
    # a Resource that outlives the boundary under which it was read: the boundary (a page) is disposed at every position of a history
    # of dependency writes and completions; neither the disposal nor any later refetch / completion may panic, and the resource
    # goes on as C15 says (real sycamore-web Resource, ssr-driver `susout` mode)
    import c15
    okr, outr, binr = vlib.cargo_build("ssr-driver")
    chk.obligation("cargo build ssr-driver against /repo", okr, outr)
    ufail = []
    if okr:
        hist = [h for h in c15.gen(a.tier, rng) if 1 <= len(h) <= 6][: 160 if a.tier == "quick" else 1200]
        ucases = [h[:pos] + [("unmount", 0)] + h[pos:] for h in hist for pos in range(len(h) + 1)]
        text = "\n".join("(resource (%s) susout)" % " ".join("(unmount)" if st[0] == "unmount" else "(%s %d)" % st for st in c) for c in ucases) + "\n"
        rc, so, se = vlib.run_driver(binr, text, timeout=3000)
        blocks = so.rstrip("\n").split("\n==\n")
        if rc != 0 or len(blocks) != len(ucases):
            ufail.append({"program": "resource-outlives-boundary", "schedule": "", "failures": [{"what": "driver run", "stderr": se[-600:]}]})
        else:
            for c, b in zip(ucases, blocks):
                ls = b.split("\n")
                sched = "(resource (%s) susout)" % " ".join("(unmount)" if st[0] == "unmount" else "(%s %d)" % st for st in c)
                if ls[0] == "PANIC" or ls[-1] != "end panics=0":
                    ufail.append({"program": "resource-outlives-boundary", "schedule": sched,
                                  "failures": [{"what": "panic at or after the disposal of a boundary under which a resource had been read", "line": ls[-1]}]})
                    continue
                body = ls[:-1]
                u = [j for j, st in enumerate(c) if st[0] == "unmount"][0]
                plain = [l.rsplit(" sus=", 1)[0] for l in body]
                bad = []
                if plain[u + 1] != plain[u]:
                    bad.append({"what": "disposing the boundary changed the resource", "before": plain[u], "after": plain[u + 1]})
                bad += c15.oracle([st for st in c if st[0] != "unmount"], plain[:u + 1] + plain[u + 2:])
                if bad:
                    ufail.append({"program": "resource-outlives-boundary", "schedule": sched, "failures": bad[:3], "output": body})
        chk.obligation("oracle: a boundary under which a Resource was read is disposed at every position of %d histories: no panic then or at any later refetch / completion, the "
                       "resource goes on unchanged" % (len(ucases)), not ufail, str(ufail[:1]))
    # a guard taken by an effect that a cleanup re-runs in the middle of the disposal of the boundary (oracle only: no panic at any step)
    flips = [[("scope", 9, [("sus", 1, [("flip", 1)])])],
             [("sus", 1, [("scope", 9, [("flip", 1), ("task", 1, 1)])])],
             [("scope", 9, [("sus", 1, [("scope", 8, [("flip", 1)]), ("sus", 2, [("flip", 2), ("task", 1, 2)])])])],
             [("scope", 9, [("sus", 1, [("flip", 1), ("res", 1, 1)])])]]
    fcases = []
    for prog in flips:
        sids = [9, 8, 1, 2]
        text_nodes = asyncgen.sx_nodes(prog)
        for sid in sids:
            if ("scope %d" % sid) in text_nodes or ("sus %d" % sid) in text_nodes:
                fcases.append((prog, [("dispose", sid)]))
                fcases.append((prog, [("go", 1), ("dispose", sid), ("go", 1)]))
    ffail = []
    try:
        fimpl = asyncgen.run_impl(binp, fcases)
        for (prog, steps), lines in zip(fcases, fimpl):
            if any("PANIC" in l for l in lines):
                ffail.append({"program": asyncgen.sx_nodes(prog), "schedule": asyncgen.sx_steps(steps),
                              "failures": [{"what": "panic at the disposal of a boundary (a cleanup re-ran an effect that takes a suspense guard while the boundary was being disposed)"}], "output": lines})
    except RuntimeError as e:
        ffail.append({"program": "flip", "schedule": "", "failures": [{"what": "driver run", "detail": str(e)[-500:]}]})
    chk.obligation("oracle: disposing a boundary never panics when a cleanup re-runs an effect that takes a suspense guard for it (%d scenarios)" % len(fcases), not ffail, str(ffail[:1]))
    # a scope disposed right after the tree was built, BEFORE the executor's first step (oracle only: the LTS has no state between
    # spawn and first poll): no task under it is ever polled, nothing panics, surviving boundaries are released (seed C14-h)
    ecases = []
    for prog in BASES:
        tasks, _, scope_parent = asyncgen.info(prog)
        gos = [("go", t) for t, (n, _, _) in tasks.items() for _ in range(n)]
        for sid in scope_parent:
            ecases.append((prog, [("early", sid)] + gos))
            ecases.append((prog, [("early", sid)] + list(reversed(gos))))
    efail = []
    try:
        eimpl = asyncgen.run_impl(binp, ecases)
        for (prog, steps), lines in zip(ecases, eimpl):
            body = [l for l in lines if not l.startswith(("again", "end"))]
            f = oracle(prog, [("dispose", steps[0][1])] + steps[1:], ["log  ; load  ; glob 0"] + body)
            f += [{"what": "panic", "event": l} for l in lines if "PANIC" in l and not any("PANIC" in str(x) for x in f)]
            if f:
                efail.append({"program": asyncgen.sx_nodes(prog), "schedule": asyncgen.sx_steps(steps), "failures": f[:3], "output": lines[:4]})
    except RuntimeError as e:
        efail.append({"program": "early", "schedule": "", "failures": [{"what": "driver run", "detail": str(e)[-500:]}]})
    efail.sort(key=lambda x: len(x["program"]) + len(x["schedule"]))
    chk.obligation("oracle: a scope disposed before the executor's first step: none of its tasks is ever polled, no panic, survivors released (%d scenarios)" % len(ecases), not efail, str(efail[:1]))
    # a waiter (until_finished) that outlives the boundary it waits for: the disposal and everything after it must not panic, and the
    # waiter must be released (a boundary that is gone is not loading)
    waits = [[("scope", 9, [("sus", 1, [("task", 1, 2)])]), ("wait", 5, 1)],
             [("sus", 1, [("task", 1, 1), ("scope", 9, [("sus", 2, [("task", 2, 2)])]), ("wait", 5, 2)])],
             [("sus", 1, [("task", 1, 2), ("scope", 9, [("sus", 2, [])]), ("wait", 5, 2)])]]
    wcases = []
    for prog in waits:
        for sched in ([("dispose", 9), ("go", 1), ("go", 1)], [("go", 1), ("dispose", 9), ("go", 1), ("go", 2)], [("go", 2), ("dispose", 9), ("go", 1), ("go", 1)]):
            wcases.append((prog, sched))
    wfail = []
    try:
        wimpl = asyncgen.run_impl(binp, wcases)
        for (prog, steps), lines in zip(wcases, wimpl):
            f = []
            if any("PANIC" in l for l in lines):
                f.append({"what": "panic after the boundary a task waits for (until_finished) was disposed"})
            if not any("done:5" in l for l in lines):
                f.append({"what": "the waiter was never released although the boundary it waits for is gone and every other task has finished"})
            if f:
                wfail.append({"program": asyncgen.sx_nodes(prog), "schedule": asyncgen.sx_steps(steps), "failures": f, "output": lines})
    except RuntimeError as e:
        wfail.append({"program": "wait", "schedule": "", "failures": [{"what": "driver run", "detail": str(e)[-500:]}]})
    chk.obligation("oracle: a task that awaits until_finished() of a boundary survives the disposal of that boundary: no panic, the waiter is released (%d scenarios)" % len(wcases),
                   not wfail, str(wfail[:1]))
    # (run_impl overwrote the per-scenario side tables: restore those of the main run)
    asyncgen.AGAIN[:] = again
    asyncgen.GLOB[:] = glob
    model = None
    vlib.coq_make(["theories/Async/Suspense.vo"])
    try:
        model = asyncgen.run_model(PID, cases)
    except RuntimeError as e:
        broken.append("model evaluation: " + str(e)[-500:])
        chk.obligation("model evaluation", False, str(e))
    # use_is_loading_global(): the model's scan of the live counters, state by state (theorem C13_global_loading_iff says what it means)
    gmis = []
    try:
        chunk = 40
        exprs = ["run_glob_all %s %s" % (asyncgen.FX, vlib.glist(["(%s, %s)" % (asyncgen.cq_nodes(p), asyncgen.cq_steps(s)) for p, s in cases[i:i + chunk]]))
                 for i in range(0, len(cases), chunk)]
        outs = vlib.coq_eval(PID + "g", asyncgen.PRE, exprs, per_file=max(1, (len(exprs) + 31) // 32))
        mglob = [l.split(" ") for o in outs for l in o.split("\n")]
        for (prog, steps), g, mg in zip(cases, glob, mglob):
            seen = [x for x in g[:len(mg)]]
            if any(a is not None and a != b for a, b in zip(seen, mg)) or len(mg) != len(steps) + 1:
                gmis.append({"program": asyncgen.sx_nodes(prog), "schedule": asyncgen.sx_steps(steps), "impl": seen, "model": mg})
    except RuntimeError as e:
        broken.append("model evaluation (global flag): " + str(e)[-500:])
    chk.obligation("correspondence: the model's global flag (scan of the live counters) = use_is_loading_global() after every step on %d scenarios" % len(cases),
                   not gmis and not any(b.startswith("model evaluation (global") for b in broken), str(gmis[:1]))
    if gmis:
        broken.append("correspondence (global flag) differs on %d scenarios" % len(gmis))
    mism, orfail = [], list(afail) + list(ufail) + list(ffail) + list(efail) + list(wfail)
    for i, ((prog, steps), lines) in enumerate(zip(cases, impl)):
        key = asyncgen.sx_nodes(prog) + asyncgen.sx_steps(steps)
        fails = oracle(prog, steps, lines, glob[i] if i < len(glob) else None)
        # non-trivial: some task was pending under the disposed scope
        tasks, _, _ = asyncgen.info(prog)
        d = [s[1] for s in steps if s[0] == "dispose"]
        chk.note_case(key, any(d[0] in owners for t, (n, owners, _) in tasks.items()) if d else False)
        if fails:
            orfail.append({"program": asyncgen.sx_nodes(prog), "schedule": asyncgen.sx_steps(steps), "failures": fails[:3], "output": lines})
        if model is not None and model[i] != lines:
            mism.append({"program": asyncgen.sx_nodes(prog), "schedule": asyncgen.sx_steps(steps), "impl": lines, "model": model[i]})
    chk.traces = len(cases) if model is not None else 0
    chk.exhaustive = True
    chk.obligation("correspondence: LTS = implementation on %d (tree, schedule with disposal) pairs" % len(cases), model is not None and not mism, str(mism[:1]))
    chk.obligation("oracle: no poll after disposal, no panic, counters of surviving boundaries released", not orfail, str(orfail[:1]))
    for i in (0, len(cases) // 2, len(cases) - 1):
        chk.sample({"program": asyncgen.sx_nodes(cases[i][0]), "schedule": asyncgen.sx_steps(cases[i][1]), "output": impl[i]})
    if orfail:
        orfail.sort(key=lambda o: len(o["program"]) + len(o["schedule"]))
        chk.violation({"property": PID, "kind": "oracle failure on implementation output", "input": orfail[0], "count": len(orfail), "also_broken": broken})
    elif mism or broken:
        chk.violation({"property": PID, "kind": "proof/correspondence broken, oracle clean on all inputs explored", "broken": broken,
                       "mismatches": mism[:3], "mismatch_count": len(mism)}, no_input=True)
    return chk.finish()
