"""C01 -- derived state is consistent with signals after every write (DESIGN.md 5.C01)."""
import itertools

import rcheck
import reactive_gen

PID = "C01"
THEOREMS = []


def small_family(limit, rng):
    """<= 2 signals, <= 3 derived nodes from templates, <= 2 writes: contains the late-subscription witness"""
    out = []

    def templates(vars):
        ts = []
        for a in vars:
            ts.append(("memo", ("mul", ("lit", 2), ("get", a))))
            ts.append(("selector2", ("get", a)))
            ts.append(("effect", ("get", a)))
            for b in vars:
                if a < b:
                    ts.append(("memo", ("add", ("get", a), ("get", b))))
                for g in vars:
                    if a != b:
                        ts.append(("memo", ("ite", ("lt", ("lit", 0), ("get", g)), ("get", a), ("get", b))))
                if a != b:
                    ts.append(("memo", ("ite", ("lt", ("lit", 0), ("get", a)), ("get", b), ("lit", 0))))
        return ts

    for nsig in (1, 2):
        base = [("signal", i + 1, ("lit", i)) for i in range(nsig)]
        sigs = [i + 1 for i in range(nsig)]

        def rec(prog, vars, nder, x):
            if nder > 0:
                yield prog, vars
            if nder == 3:
                return
            for kind, e in templates(vars):
                if kind == "memo":
                    s = ("memo", x, ("body", None, [], e))
                elif kind == "selector2":
                    s = ("selector", x, 2, ("body", None, [], e))
                else:
                    s = ("effect", x, ("body", None, [], e))
                # effects are not readable
                yield from rec(prog + [s], vars if kind == "effect" else vars + [x], nder + 1, x + 1)

        for prog, vars in rec(base, sigs, 0, nsig + 1):
            for ops in itertools.chain(itertools.product(sigs, (1, 2)),
                                       itertools.product(sigs, (1, 2), sigs, (0, 3))):
                hist = [("set", ops[i], ("lit", ops[i + 1])) for i in range(0, len(ops), 2)]
                out.append(prog + hist)
    rng.shuffle(out)
    return out[:limit]


FEATS = {"untracked": 0.15, "selector": 1, "effect": 1, "nested": 0.3, "effect_write": 0.1, "scope": 0.5, "cleanup": 0.1,
         "dispose": 0.25, "batch": 1, "nested_batch": 0.2, "on": 0.1, "log": 0.3, "untrack_block": 0.3, "late_create": 1}


def gen(tier, rng):
    n_small, n_rand = (1200, 800) if tier == "quick" else (12000, 8000)
    cases = [("small:%d" % i, p) for i, p in enumerate(small_family(n_small, rng))]
    cases += [("random:%d" % i, p) for i, p in
              enumerate(reactive_gen.random_programs(rng.randrange(1 << 30), n_rand, FEATS, (3, 8), (2, 6)))]
    return cases


def oracle(prog, steps):
    return rcheck.consistency_failures(prog, steps)


def nontrivial(prog, steps):
    """some derived value changed and some dependency list changed during the history"""
    vals, deps = set(), set()
    changed_val = changed_dep = False
    prev = None
    for st in steps:
        if st["snap"] is None:
            break
        cur = st["snap"]["nodes"]
        if prev is not None:
            for x, n in cur.items():
                p = prev.get(x)
                if p and p["alive"] and n["alive"] and p.get("deps") is not None:
                    if n["deps"] and p["value"] != n["value"]:
                        changed_val = True
                    if sorted(p["deps"]) != sorted(n["deps"]) and p["deps"]:
                        changed_dep = True
        prev = cur
    return changed_val and changed_dep


def main(argv):
    return rcheck.run(
        PID, argv, module="C01+C01Write", theorems=['C01_loop_consistent_partial', 'C01_loop_invariant', 'C01_late_read_refuted', 'C01_dfs_establishes_inv', 'C01_write_no_fuel_no_cycle',
                                                  'C01_write_consistent', 'C01_write_signals', 'C01_writes_consistent', 'C01_create_empty', 'C01_create_signal', 'C01_create_memo',
                                                  'C01_memo_holds_current_value', 'C01_batch_consistent', 'C01_write_consistent_without_lrf_refuted'], bridge=1500, extra_targets=["theories/Reactive/Bridge.vo"], gen=gen, oracle=oracle, nontrivial=nontrivial,
        rule=("small family: <=2 signals, <=3 derived nodes from templates (double, sum, conditional read, selector mod 2, effect) "
              "x <=2 writes, sampled without replacement; random family: programs with nested creation, conditional and untracked "
              "reads, selectors, effects (some writing signals), scopes, batches, disposals; non-trivial = some derived value and "
              "some dependency list changed during the history; distinct = distinct program text"),
        assumptions=["known finding F1 (late subscription) is recognised structurally: the inconsistent node's last run read a node that ran later in the same propagation"])
