"""Correspondence between coq/theories/Dom/Hydrate.v (model of hydrate_node.rs: claim by key, adoption by search) and the real
hydration code run by dom-driver: the model is given the REAL parsed server DOM (the driver's pre-hydration dump, identities
included) and must predict the DOM right after hydration: structure, and which server nodes are still there."""
import vlib
import viewgen
from vlib import glist

PRE = ("From Coq Require Import List String ZArith.\nFrom Syc Require Import Common.Show Ssr.Html Ssr.View Dom.Hydrate.\n"
       "Import ListNotations.\nOpen Scope string_scope.\nDefinition H := of_hex.\n")
FRESH = 900000000        # ids of nodes created by the model (compared as "not a server node")


def parse_tree(dump):
    """driver dump -> nested list of ('E', id, tag_hex, [(name_hex, value_hex)], children) | ('T', id, hex) | ('C', id, hex)"""
    toks = dump.split()
    pos = 0

    def rec():
        nonlocal pos
        out = []
        while pos < len(toks):
            t = toks[pos]
            if t == "e":
                pos += 1
                return out
            kind, rest = t[0], t[1:]
            nid, payload = rest.split(":", 1)
            pos += 1
            if kind == "E":
                tag, attrs = payload.split(":", 1)
                al = [tuple(a.split("=", 1)) for a in attrs.split(",") if a]
                out.append(("E", int(nid), tag, al, rec()))
            else:
                out.append((kind, int(nid), payload))
        return out
    return rec()


def cq_tree(nodes):
    def one(n):
        if n[0] == "E":
            return 'HEl %d (H "%s") %s %s' % (n[1], n[2], glist(['(H "%s", H "%s")' % a for a in n[3]]), cq_tree(n[4]))
        return '%s %d (H "%s")' % ("HText" if n[0] == "T" else "HCom", n[1], n[2])
    return glist([one(n) for n in nodes])


def renumber(dump):
    """node ids of the driver are large: renumber them 0..n-1 in document order (nat literals must stay small in Coq)"""
    ids = {}
    out = []
    for t in dump.split():
        if t == "e":
            out.append(t)
            continue
        kind, rest = t[0], t[1:]
        nid, payload = rest.split(":", 1)
        k = ids.setdefault(int(nid), len(ids))
        out.append("%s%d:%s" % (kind, k, payload))
    return " ".join(out), ids


def run_model(pid, cases, chunk=20):
    """cases: (state, view, pre_dump with ids renumbered by `renumber`); fresh nodes get ids from 5000"""
    exprs = ["run_hydrate %s" % glist(["(%s, %s, %s, %d)" % (viewgen.cq_state(st), viewgen.cq_view(v), cq_tree(parse_tree(pre)), 5000) for st, v, pre in cases[i:i + chunk]])
             for i in range(0, len(cases), chunk)]
    outs = vlib.coq_eval(pid, PRE, exprs, per_file=max(1, (len(exprs) + 31) // 32))
    return [l for o in outs for l in o.split("\n")]


def observation(dump, server_ids, drop_stamp=True):
    """structure (attributes sorted, the debug stamp dropped) and, per node, its server identity (`server_ids`: id -> canonical number) or -1"""
    out = []
    for t in dump.split():
        if t == "e":
            out.append(("e", "", -2))
            continue
        kind, rest = t[0], t[1:]
        nid, payload = rest.split(":", 1)
        nid = int(nid)
        if kind == "E":
            tag, attrs = payload.split(":", 1)
            keep = sorted(a for a in attrs.split(",") if a and not (drop_stamp and a.startswith("646174612d6879647261746564=")))
            payload = tag + ":" + ",".join(keep)
        out.append((kind, payload, server_ids.get(nid, -1)))
    return out


def run_server_dom(pid, cases, chunk=40):
    """cases: (state, view) -> the model's parsed server DOM (dump with ids in document order)"""
    exprs = ["run_server_dom %s" % glist(["(%s, %s)" % (viewgen.cq_state(st), viewgen.cq_view(v)) for st, v in cases[i:i + chunk]])
             for i in range(0, len(cases), chunk)]
    outs = vlib.coq_eval(pid, PRE, exprs, per_file=max(1, (len(exprs) + 31) // 32))
    return [l for o in outs for l in o.split("\n")]
