#!/bin/bash
# usage: tools/seedtest.sh <patch.diff> <check id>...   -- applies the patch to /repo, runs the checks, reverts.
# The evidence files are saved and restored: what is committed must come from runs on the unchanged tree.
set -u
patch=$(realpath $1); shift
bak=$(mktemp -d /tmp/evbak.XXXXXX)
cp -a /verif/evidence/. "$bak"/
git -C /repo apply "$patch" || { echo "patch does not apply"; rm -rf "$bak"; exit 2; }
for id in "$@"; do
  echo "=== $id with $(basename $(dirname $patch))/$(basename $patch)"
  python3 /verif/tools/check.py $id --tier quick 2>&1 | grep -E "VIOLATION|KNOWN|\] (OK|FAIL)" | cut -c1-300
done
git -C /repo checkout -- .
git -C /repo status --short | head -3
rm -rf /verif/evidence; mkdir -p /verif/evidence; cp -a "$bak"/. /verif/evidence/; rm -rf "$bak"
