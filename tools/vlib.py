"""Shared machinery of the /verif checks (python3 stdlib only).

Pipeline pieces (DESIGN.md section 2.3): proof step (make + Print Assumptions + hygiene),
harness build against /repo's working tree, evaluation of the Gallina model through coqc,
comparison, oracle, violation protocol, evidence writer.
"""
import concurrent.futures
import fcntl
import hashlib
import json
import os
import re
import subprocess
import sys
import time

ROOT = os.path.dirname(os.path.dirname(os.path.abspath(__file__)))
COQ = os.path.join(ROOT, "coq")
HARNESS = os.path.join(ROOT, "harness")
BUILD = os.path.join(ROOT, "build")
EVID = os.path.join(ROOT, "evidence")
REPLAY = os.path.join(EVID, "replay")
REPO = "/repo"
NCPU = 16

ENV = dict(os.environ)
ENV.update({"CARGO_NET_OFFLINE": "true", "CARGO_TERM_COLOR": "never"})

FORBIDDEN = re.compile(
    r"\b(Admitted|admit|Axiom|Axioms|Parameter|Parameters|Conjecture|Conjectures|Admit Obligations|"
    r"bypass_check|Unset Guard Checking|Unset Positivity Checking|Unset Universe Checking|"
    r"type-in-type|impredicative-set)\b")
SECTION_ONLY = re.compile(r"^\s*(Variable|Variables|Hypothesis|Hypotheses|Context)\b")

# Standard-library axioms that may appear (Flocq / Reals); anything else is rejected.
STDLIB_AXIOMS = {
    "ClassicalDedekindReals.sig_forall_dec",
    "ClassicalDedekindReals.sig_not_dec",
    "FunctionalExtensionality.functional_extensionality_dep",
    "functional_extensionality_dep",
    "Classical_Prop.classic",
    "classic",
    "sig_forall_dec",
    "sig_not_dec",
}
# Print Assumptions also lists the kernel's primitive machine types when Flocq is loaded; they are not axioms of ours
PRIMITIVES = {"PrimInt63.int", "PrimFloat.float", "Uint63.int", "int", "float"}


def sh(cmd, timeout=1200, cwd=None, env=None, inp=None):
    """run a command, return (rc, stdout+stderr)"""
    try:
        p = subprocess.run(cmd, shell=isinstance(cmd, str), cwd=cwd, env=env or ENV, input=inp,
                           stdout=subprocess.PIPE, stderr=subprocess.STDOUT, timeout=timeout,
                           text=True, errors="replace")
        return p.returncode, p.stdout
    except subprocess.TimeoutExpired as e:
        out = e.stdout or ""
        if isinstance(out, bytes):
            out = out.decode("utf8", "replace")
        return 124, out + "\n[timeout after %ss]" % timeout


class Lock:
    def __init__(self, name):
        os.makedirs(BUILD, exist_ok=True)
        self.path = os.path.join(BUILD, name + ".lock")

    def __enter__(self):
        self.f = open(self.path, "w")
        fcntl.flock(self.f, fcntl.LOCK_EX)

    def __exit__(self, *a):
        fcntl.flock(self.f, fcntl.LOCK_UN)
        self.f.close()


# ------------------------------------------------------------------------------------------
# Coq side

def coq_makefile():
    mk = os.path.join(COQ, "Makefile")
    cp = os.path.join(COQ, "_CoqProject")
    if not os.path.exists(mk) or os.path.getmtime(mk) < os.path.getmtime(cp):
        rc, out = sh("coq_makefile -f _CoqProject -o Makefile", cwd=COQ)
        if rc != 0:
            raise RuntimeError("coq_makefile failed:\n" + out)


def coq_make(targets, timeout=3000):
    """make the given .vo targets (paths relative to coq/). Returns (ok, output)."""
    with Lock("coq"):
        coq_makefile()
        rc, out = sh(["make", "-j%d" % NCPU] + list(targets), timeout=timeout, cwd=COQ)
    return rc == 0, out


def coq_hygiene(subdirs=None):
    """grep the development for forbidden declarations. Returns list of offending lines."""
    bad = []
    base = os.path.join(COQ, "theories")
    for d, _, fs in os.walk(base):
        for f in fs:
            if not f.endswith(".v"):
                continue
            path = os.path.join(d, f)
            depth = 0
            incomment = 0
            for i, line in enumerate(open(path, encoding="utf8"), 1):
                # strip comments (nesting aware, line based: good enough, and conservative
                # because a forbidden word inside a comment is also reported unless in (* *))
                text = ""
                j = 0
                while j < len(line):
                    if line.startswith("(*", j):
                        incomment += 1
                        j += 2
                    elif line.startswith("*)", j) and incomment:
                        incomment -= 1
                        j += 2
                    else:
                        if not incomment:
                            text += line[j]
                        j += 1
                if re.match(r"^\s*(Section|Module Type)\b", text):
                    depth += 1
                if re.match(r"^\s*End\b", text) and depth:
                    depth -= 1
                if FORBIDDEN.search(text):
                    bad.append("%s:%d: %s" % (os.path.relpath(path, ROOT), i, line.strip()))
                if SECTION_ONLY.match(text) and depth == 0:
                    bad.append("%s:%d: (outside a section) %s" % (os.path.relpath(path, ROOT), i, line.strip()))
    return bad


def coqc_file(path, timeout=1200, extra_args=()):
    cmd = ["coqc", "-noglob", "-Q", os.path.join(COQ, "theories"), "Syc"] + list(extra_args) + [path]
    # large literal case lists need a deep stack in coqc's parser / vm
    sh_cmd = "ulimit -s unlimited 2>/dev/null || ulimit -s 1000000 2>/dev/null; exec " + " ".join("'%s'" % c for c in cmd)
    return sh(sh_cmd, timeout=timeout, cwd=os.path.dirname(path))


def coq_assumptions(pid, module, theorems, allow=()):
    """Print Assumptions for each theorem of Syc.Props.<module>.
    Returns dict thm -> list of axioms (empty = closed); raises on failure to compile."""
    d = os.path.join(BUILD, "assum")
    os.makedirs(d, exist_ok=True)
    path = os.path.join(d, "Assum_%s.v" % pid)
    with open(path, "w") as f:
        for m in module.split("+"):
            f.write("From Syc Require Import Props.%s.\n" % m)
        for t in theorems:
            f.write('Goal True. idtac "@@THM %s". exact I. Qed.\nPrint Assumptions %s.\n' % (t, t))
    rc, out = coqc_file(path)
    if rc != 0:
        raise RuntimeError("Print Assumptions run failed:\n" + out)
    res = {}
    cur = None
    for line in out.splitlines():
        m = re.match(r"@@THM (\S+)", line)
        if m:
            cur = m.group(1)
            res[cur] = []
            continue
        if cur is None:
            continue
        if "Closed under the global context" in line or line.strip() == "Axioms:" or not line.strip():
            continue
        m = re.match(r"^([A-Za-z_][\w.']*)\s*:", line)
        if m:
            res[cur].append(m.group(1))
    return res


_STR = re.compile(r'=\s*"((?:[^"]|"")*)"\s*:\s*string', re.S)


def _run_shard(args):
    path, timeout = args
    rc, out = coqc_file(path, timeout=timeout)
    return path, rc, out


def coq_eval(pid, preamble, exprs, per_file=1, timeout=1200):
    """Evaluate Gallina terms of type `string` with vm_compute; returns list of python strings.
    `exprs` is a list of Gallina source texts; they are distributed over files evaluated in parallel."""
    d = os.path.join(BUILD, "cases", pid)
    os.makedirs(d, exist_ok=True)
    for f in os.listdir(d):
        os.unlink(os.path.join(d, f))
    files = []
    for k in range(0, len(exprs), per_file):
        path = os.path.join(d, "cases_%d.v" % (k // per_file))
        with open(path, "w") as f:
            f.write(preamble + "\n")
            for e in exprs[k:k + per_file]:
                f.write("Eval vm_compute in (%s).\n" % e)
        files.append(path)
    results = {}
    with concurrent.futures.ThreadPoolExecutor(NCPU) as ex:
        for path, rc, out in ex.map(_run_shard, [(p, timeout) for p in files]):
            if rc != 0:
                raise RuntimeError("coqc failed on %s:\n%s" % (path, out[-3000:]))
            results[path] = [m.group(1).replace('""', '"') for m in _STR.finditer(out)]
    res = []
    for k, path in enumerate(files):
        n = len(exprs[k * per_file:(k + 1) * per_file])
        if len(results[path]) != n:
            raise RuntimeError("expected %d results from %s, got %d" % (n, path, len(results[path])))
        res.extend(results[path])
    return res


def gstr(s):
    """python str -> Gallina string literal (ASCII only)"""
    assert all(32 <= ord(c) < 127 for c in s), repr(s)
    return '"' + s.replace('"', '""') + '"'


def glist(items):
    return "[" + "; ".join(items) + "]"


# ------------------------------------------------------------------------------------------
# Rust side

def cargo_build(pkg, workspace=HARNESS, features=(), release=False, rustflags=None, timeout=3000):
    """build one harness package against /repo's working tree; returns (ok, output, binpath)"""
    lock = os.path.join(workspace, "Cargo.lock")
    env = dict(ENV)
    if rustflags:
        env["RUSTFLAGS"] = rustflags
    with Lock("cargo-" + os.path.basename(workspace)):
        if not os.path.exists(lock):
            sh(["cp", os.path.join(REPO, "Cargo.lock"), lock])
        cmd = ["cargo", "build", "--offline", "-p", pkg]
        if release:
            cmd.append("--release")
        if features:
            cmd += ["--features", ",".join(features)]
        rc, out = sh(cmd, timeout=timeout, cwd=workspace, env=env)
    binp = os.path.join(workspace, "target", "release" if release else "debug", pkg)
    return rc == 0, out, binp


def run_driver(binp, text, timeout=1200, env=None):
    e = dict(ENV)
    if env:
        e.update(env)
    p = subprocess.run([binp], input=text, stdout=subprocess.PIPE, stderr=subprocess.PIPE,
                       timeout=timeout, text=True, errors="replace", env=e)
    return p.returncode, p.stdout, p.stderr


# ------------------------------------------------------------------------------------------
# Known findings

def load_findings(pid):
    path = os.path.join(ROOT, "known_findings.json")
    if not os.path.exists(path):
        return []
    return [f for f in json.load(open(path)) if f.get("property") == pid and f.get("status") == "known"]


# ------------------------------------------------------------------------------------------
# Reporting

class Check:
    def __init__(self, pid, tier, seed, level="proof"):
        self.pid, self.tier, self.seed, self.level = pid, tier, seed, level
        self.t0 = time.time()
        self.obligations = []      # (name, ok, detail)
        self.evaluations = 0
        self.nontrivial = set()
        self.samples = []
        self.rule = ""
        self.cov = {}
        self.trusted = []
        self.assumptions = []
        self.violations = []       # (replay path, no_input)
        self.known_hits = {}
        self.checker_cmd = ""
        self.exhaustive = False
        self.traces = 0

    def obligation(self, name, ok, detail=""):
        self.obligations.append((name, bool(ok), detail))
        if not ok:
            print("[%s] obligation FAILED: %s %s" % (self.pid, name, detail[-2000:]))

    def note_case(self, key, nontrivial):
        self.evaluations += 1
        if nontrivial:
            self.nontrivial.add(key)

    def sample(self, s):
        if len(self.samples) < 12:
            self.samples.append(s)

    def violation(self, replay_obj, no_input=False):
        os.makedirs(REPLAY, exist_ok=True)
        blob = json.dumps(replay_obj, sort_keys=True, indent=1)
        h = hashlib.sha1(blob.encode()).hexdigest()[:10]
        path = os.path.join(REPLAY, "%s-%s.json" % (self.pid, h))
        with open(path, "w") as f:
            f.write(blob)
        self.violations.append((path, no_input))
        print("VIOLATION property=%s replay=%s%s" % (self.pid, path, " no-failing-input-found" if no_input else ""))
        sys.stdout.flush()

    def known(self, finding, what):
        key = finding["key"]
        if key not in self.known_hits:
            self.known_hits[key] = 0
            print("KNOWN-FINDING: property=%s %s (%s)" % (self.pid, finding["what"], what))
        self.known_hits[key] += 1

    def finish(self):
        os.makedirs(EVID, exist_ok=True)
        nob = len(self.obligations)
        ndis = sum(1 for o in self.obligations if o[1])
        if ndis != nob and not self.violations:
            # an obligation that failed without anybody reporting it: the property is no longer shown to hold
            self.violation({"property": self.pid, "kind": "obligation failed, no failing input at hand",
                            "failed_obligations": [{"name": n, "detail": str(d)[-1500:]} for n, ok, d in self.obligations if not ok]}, no_input=True)
        cov = {
            "obligations": nob,
            "discharged": ndis,
            "checker_cmd": self.checker_cmd,
            "trusted_base": self.trusted,
            "obligation_list": [{"name": n, "ok": ok} for n, ok, _ in self.obligations],
            "evaluations": self.evaluations,
            "distinct_nontrivial": len(self.nontrivial),
            "rule": self.rule,
            "samples": self.samples,
            "traces_validated_against_impl": self.traces,
            "exhaustive": self.exhaustive,
            "known_findings_hit": self.known_hits,
        }
        cov.update(self.cov)
        if self.level != "proof":
            cov.setdefault("explanation", "differential correspondence between the executable Gallina model and the implementation, "
                           "plus an oracle restating the property on the implementation's own output; the Coq theorems for this "
                           "property are not finished, so no proof-level claim is made")
        ev = {
            "property_id": self.pid,
            "tier": self.tier,
            "seed": self.seed,
            "level": self.level,
            "coverage": cov,
            "assumptions": self.assumptions,
            "wall_s": round(time.time() - self.t0, 2),
            "violations": len(self.violations),
        }
        with open(os.path.join(EVID, "%s.json" % self.pid), "w") as f:
            json.dump(ev, f, indent=1, sort_keys=True)
        ok = not self.violations
        print("[%s] %s tier=%s obligations=%d/%d evaluations=%d nontrivial=%d wall=%.1fs" % (
            self.pid, "OK" if ok else "FAIL", self.tier, ndis, nob, self.evaluations,
            len(self.nontrivial), time.time() - self.t0))
        return 0 if ok else 1


def proof_step(chk, module, vo_targets, theorems, allow_axioms=()):
    """Build Props/<module>.vo, check hygiene and assumptions. Returns True if all good."""
    chk.checker_cmd = "make -C coq %s && coqc Print Assumptions (tools/vlib.py proof_step)" % " ".join(vo_targets)
    ok, out = coq_make(vo_targets)
    chk.obligation("coq build " + " ".join(vo_targets), ok, out)
    if not ok:
        m = re.search(r'File "([^"]+)", line (\d+)', out)
        return False, "coq build failed at %s" % (m.group(0) if m else "?") + "\n" + out[-1500:]
    bad = coq_hygiene()
    chk.obligation("hygiene (no Admitted/Axiom/Parameter/unguarded checks)", not bad, "\n".join(bad))
    if bad:
        return False, "forbidden declarations: " + "; ".join(bad[:5])
    try:
        ass = coq_assumptions(chk.pid, module, theorems)
    except RuntimeError as e:
        chk.obligation("Print Assumptions", False, str(e))
        return False, str(e)[-1500:]
    allgood = True
    msg = ""
    for t in theorems:
        axs = ass.get(t)
        if axs is None:
            chk.obligation("theorem " + t, False, "not reported")
            allgood = False
            msg += "theorem %s missing; " % t
            continue
        extra = [a for a in axs if a not in allow_axioms]
        chk.obligation("theorem %s (axioms: %s)" % (t, ", ".join(axs) or "none"), not extra,
                       "unexpected axioms " + ", ".join(extra))
        if extra:
            allgood = False
            msg += "theorem %s depends on %s; " % (t, extra)
    return allgood, msg


def args(argv):
    import argparse
    ap = argparse.ArgumentParser()
    ap.add_argument("pid")
    ap.add_argument("--tier", default=os.environ.get("VERIF_TIER", "quick"))
    ap.add_argument("--replay")
    a = ap.parse_args(argv)
    seed = int(os.environ.get("VERIF_SEED", "0") or 0)
    if a.tier not in ("quick", "thorough"):
        a.tier = "quick"
    return a, seed
