"""Translator for C18: reads `is_dyn`, `is_dyn_pattern`, `is_dyn_block`, `is_dyn_macro` from
/repo/packages/sycamore-view-parser/src/codegen.rs and regenerates the classification table
`coq/theories/Gen/C18Table.v` (tag -> rule) that the C18 theorems are about.

Deliberately small: a tokenizer and a recursive-descent parser for the boolean sub-language those
functions are written in (||, &&, !, true/false, calls of is_dyn*, `.iter().any(..)`,
`.as_ref()/.as_deref().is_some_and(..)`, `.is_some()`, closures). Anything else raises
TranslateError -- the check then reports the table as broken rather than guessing.
"""
import os
import re

SRC = "/repo/packages/sycamore-view-parser/src/codegen.rs"


class TranslateError(Exception):
    pass


# (syn variant as written in the source) -> model tag(s); flagged variants map to several tags
EXPR_TAGS = ["Array", "Assign", "Async", "Await", "Binary", "Block", "Break", "Call", "Cast", "Closure",
             "Const", "Continue", "Field", "ForLoop", "Group", "If", "Index", "Infer", "Let", "Lit", "Loop",
             "Macro", "Match", "MethodCall", "Paren", "Path", "Range", "RawAddr", "Reference", "Repeat",
             "Return", "Struct", "Try", "TryBlock", "Tuple", "Unary", "Unsafe", "Verbatim", "While", "Yield"]
PAT_TAGS = ["Const", "Ident", "Lit", "Macro", "Or", "Paren", "Path", "Range", "Reference", "Rest", "Slice",
            "Struct", "Tuple", "TupleStruct", "Type", "Verbatim", "Wild"]
STMT_TAGS = ["Expr", "Macro", "Local", "Item"]

# (model tag, access path below the bound value) -> (model tag owning the slot, slot index)
SLOTS = {
    ("EArray", "elems"): ("EArray", 0), ("EAssign", "left"): ("EAssign", 0), ("EAssign", "right"): ("EAssign", 1),
    ("EAsync", "block"): ("EAsync", 0), ("EAwait", "base"): ("EAwait", 0),
    ("EBinary", "left"): ("EBinary", 0), ("EBinary", "right"): ("EBinary", 1),
    ("EBlock", "block"): ("EBlock", 0), ("EBreak", "expr"): ("EBreak", 0),
    ("ECall", "func"): ("ECall", 0), ("ECall", "args"): ("ECall", 1), ("ECast", "expr"): ("ECast", 0),
    ("EClosure", "body"): ("EClosure", 0), ("EConst", "block"): ("EConst", 0),
    ("EField", "base"): ("EField", 0),
    ("EForLoop", "pat"): ("EForLoop", 0), ("EForLoop", "expr"): ("EForLoop", 1), ("EForLoop", "body"): ("EForLoop", 2),
    ("EGroup", "expr"): ("EGroup", 0),
    ("EIf", "cond"): ("EIf", 0), ("EIf", "then_branch"): ("EIf", 1), ("EIf", "else_branch.1"): ("EIf", 2),
    ("EIndex", "expr"): ("EIndex", 0), ("EIndex", "index"): ("EIndex", 1),
    ("ELet", "pat"): ("ELet", 0), ("ELet", "expr"): ("ELet", 1), ("ELoop", "body"): ("ELoop", 0),
    ("EMatch", "expr"): ("EMatch", 0), ("EMatch", "arms.pat"): ("TArm", 0),
    ("EMatch", "arms.guard.1"): ("TArm", 1), ("EMatch", "arms.body"): ("TArm", 2),
    ("EMethodCall", "receiver"): ("EMethodCall", 0), ("EMethodCall", "args"): ("EMethodCall", 1),
    ("EParen", "expr"): ("EParen", 0),
    ("ERange", "start"): ("ERange", 0), ("ERange", "end"): ("ERange", 1),
    ("ERawAddr", "expr"): ("ERawAddr", 0), ("EReference", "expr"): ("EReference", 0),
    ("ERepeat", "expr"): ("ERepeat", 0), ("ERepeat", "len"): ("ERepeat", 1),
    ("EReturn", "expr"): ("EReturn", 0),
    ("EStruct", "fields.expr"): ("EStruct", 0), ("EStruct", "rest"): ("EStruct", 1),
    ("ETry", "expr"): ("ETry", 0), ("ETryBlock", "block"): ("ETryBlock", 0), ("ETuple", "elems"): ("ETuple", 0),
    ("EUnary", "expr"): ("EUnary", 0), ("EUnsafe", "block"): ("EUnsafe", 0),
    ("EWhile", "cond"): ("EWhile", 0), ("EWhile", "body"): ("EWhile", 1), ("EYield", "expr"): ("EYield", 0),
    ("PConst", "block"): ("PConst", 0), ("PIdent", "subpat.1"): ("PIdent", 0),
    ("POr", "cases"): ("POr", 0), ("PParen", "pat"): ("PParen", 0),
    ("PRange", "start"): ("PRange", 0), ("PRange", "end"): ("PRange", 1),
    ("PReference", "pat"): ("PReference", 0), ("PSlice", "elems"): ("PSlice", 0),
    ("PStruct", "fields.pat"): ("PStruct", 0), ("PTuple", "elems"): ("PTuple", 0),
    ("PTupleStruct", "elems"): ("PTupleStruct", 0), ("PType", "pat"): ("PType", 0),
    ("SExpr", "0"): ("SExpr", 0),
    ("SLocal", "pat"): ("SLocal", 0), ("SLocal", "init.expr"): ("SLocal", 1), ("SLocal", "init.diverge.1"): ("SLocal", 2),
}
FLAGS = {("PReference", "mutability"): "mut", ("PIdent", "mutability"): "mut", ("PIdent", "by_ref"): "ref"}
# paths that select a container of structured elements (they carry no slot of their own)
CONTAINERS = {("EMatch", "arms"), ("EStruct", "fields"), ("PStruct", "fields"), ("SLocal", "init"),
              ("SLocal", "init.diverge"), ("EIf", "else_branch"), ("EMatch", "arms.guard"), ("PIdent", "subpat")}

TOKEN = re.compile(r'\s*(?:(\|\||&&|::|=>|==|"[^"]*"|[A-Za-z_][A-Za-z0-9_]*|[!(){}\[\],.&|:;#<>\'-]))')


def strip_comments(s):
    return re.sub(r"//[^\n]*", "", s)


def fn_body(src, name):
    m = re.search(r"fn\s+%s\s*\([^)]*\)\s*->\s*bool\s*\{" % re.escape(name), src)
    if not m:
        raise TranslateError("function %s not found" % name)
    i = m.end()
    depth = 1
    j = i
    while depth:
        if j >= len(src):
            raise TranslateError("unbalanced braces in %s" % name)
        if src[j] == "{":
            depth += 1
        elif src[j] == "}":
            depth -= 1
        j += 1
    return src[i:j - 1]


def tokenize(s):
    toks = []
    pos = 0
    s = s.strip()
    while pos < len(s):
        m = TOKEN.match(s, pos)
        if not m:
            raise TranslateError("cannot tokenize at: %r" % s[pos:pos + 40])
        toks.append(m.group(1))
        pos = m.end()
        while pos < len(s) and s[pos].isspace():
            pos += 1
    return toks


# formulas: ("c", bool) | ("slot", tag, idx) | ("flag", name) | ("view",) | ("or", a, b) | ("and", a, b) | ("not", a)

class Parser:
    def __init__(self, toks, fam):
        self.t = toks
        self.i = 0
        self.fam = fam           # "E" | "P" | "S"
        self.tag = None          # model tag of the arm being translated
        self.env = {}            # variable -> access path (string, "" = the bound value)

    def peek(self, k=0):
        return self.t[self.i + k] if self.i + k < len(self.t) else None

    def eat(self, x=None):
        tok = self.peek()
        if tok is None or (x is not None and tok != x):
            raise TranslateError("expected %r, found %r (near %s)" % (x, tok, " ".join(self.t[max(0, self.i - 6):self.i + 6])))
        self.i += 1
        return tok

    # ---- expressions
    def or_expr(self):
        a = self.and_expr()
        while self.peek() == "||":
            self.eat()
            a = ("or", a, self.and_expr())
        return a

    def and_expr(self):
        a = self.unary()
        while self.peek() == "&&":
            self.eat()
            a = ("and", a, self.unary())
        return a

    def unary(self):
        if self.peek() == "!":
            self.eat()
            return ("not", self.unary())
        return self.primary()

    def primary(self):
        tok = self.peek()
        if tok == "(":
            self.eat()
            a = self.or_expr()
            self.eat(")")
            return a
        if tok == "{":
            self.eat()
            a = self.or_expr()
            self.eat("}")
            return a
        if tok == "true":
            self.eat()
            return ("c", True)
        if tok == "false":
            self.eat()
            return ("c", False)
        if tok in ("is_dyn", "is_dyn_block", "is_dyn_pattern", "is_dyn_macro"):
            fn = self.eat()
            self.eat("(")
            path = self.place()
            self.eat(")")
            return self.apply_fn(fn, path)
        # a place followed by a method chain
        path = self.place()
        return self.chain(path)

    def place(self):
        """`&`? ident (. field | . tuple-index)* -- stops before a method call"""
        while self.peek() == "&":
            self.eat()
        v = self.eat()
        if v not in self.env:
            raise TranslateError("unknown variable %r in arm for %s" % (v, self.tag))
        path = self.env[v]
        while self.peek() == "." and self.peek(2) != "(":
            self.eat(".")
            f = self.eat()
            path = f if path == "" else path + "." + f
        return path

    def apply_fn(self, fn, path):
        if fn == "is_dyn_macro":
            if path != "mac":
                raise TranslateError("is_dyn_macro applied to %r" % path)
            return ("not", ("view",))      # body of is_dyn_macro is checked separately
        return self.slot(path)

    def slot(self, path):
        key = (self.tag, path)
        if key not in SLOTS:
            raise TranslateError("no slot for %s.%s" % key)
        return ("slot",) + SLOTS[key]

    def chain(self, path):
        self.eat(".")
        m = self.eat()
        self.eat("(")
        if m == "is_some":
            self.eat(")")
            key = (self.tag, path)
            if key not in FLAGS:
                raise TranslateError("is_some() on %s.%s is not a known flag" % key)
            return ("flag", FLAGS[key])
        if m in ("iter", "as_ref", "as_deref"):
            self.eat(")")
            self.eat(".")
            m2 = self.eat()
            if (m, m2) not in (("iter", "any"), ("as_ref", "is_some_and"), ("as_deref", "is_some_and")):
                raise TranslateError("unsupported combinator .%s().%s" % (m, m2))
            self.eat("(")
            r = self.callback(path)
            self.eat(")")
            return r
        raise TranslateError("unsupported method .%s(" % m)

    def callback(self, path):
        tok = self.peek()
        if tok in ("is_dyn", "is_dyn_pattern", "is_dyn_block"):
            self.eat()
            return self.slot(path)
        if tok != "|":
            raise TranslateError("expected a predicate, found %r" % tok)
        self.eat("|")
        # closure parameter: ident [: type]  |  ( _ , ident )
        saved = dict(self.env)
        if self.peek() == "(":
            self.eat("(")
            self.eat("_")
            self.eat(",")
            v = self.eat()
            self.eat(")")
            self.env[v] = path + ".1"
        else:
            v = self.eat()
            self.env[v] = path
            if self.peek() == ":":
                while self.peek() != "|":
                    self.eat()
        self.eat("|")
        if (self.tag, path) not in CONTAINERS and (self.tag, self.env[v]) not in CONTAINERS \
                and (self.tag, self.env[v]) not in SLOTS:
            raise TranslateError("closure over unknown container %s.%s" % (self.tag, path))
        body = self.or_expr()
        self.env = saved
        return body

    # ---- match arms
    def arms(self, on_arm):
        """PAT (| PAT)* => expr ,?   until the closing brace"""
        while self.peek() not in (None, "}"):
            pats = [self.pattern()]
            while self.peek() == "|":
                self.eat()
                pats.append(self.pattern())
            self.eat("=>")
            start = self.i
            for variant, binders in pats:
                self.i = start
                on_arm(self, variant, binders)
            if self.peek() == ",":
                self.eat()

    def pattern(self):
        tok = self.eat()
        if tok == "_":
            return ("_", [])
        names = [tok]
        while self.peek() == "::":
            self.eat()
            names.append(self.eat())
        binders = []
        if self.peek() == "(":
            self.eat()
            while self.peek() != ")":
                binders.append(self.eat())
                if self.peek() == ",":
                    self.eat()
            self.eat(")")
        return (names[-1], binders)


def simplify(f, flags):
    k = f[0]
    if k == "c":
        return f
    if k == "slot":
        return ("set", frozenset([(f[1], f[2])]))
    if k == "flag":
        return ("c", flags[f[1]])
    if k == "view":
        return ("c", flags["view"])
    if k == "not":
        a = simplify(f[1], flags)
        if a[0] != "c":
            raise TranslateError("negation of a non-constant")
        return ("c", not a[1])
    a, b = simplify(f[1], flags), simplify(f[2], flags)
    if k == "or":
        if a == ("c", True) or b == ("c", True):
            return ("c", True)
        if a == ("c", False):
            return b
        if b == ("c", False):
            return a
        return ("set", a[1] | b[1])
    if k == "and":
        if a == ("c", False) or b == ("c", False):
            return ("c", False)
        if a == ("c", True):
            return b
        if b == ("c", True):
            return a
        raise TranslateError("conjunction of two non-constants")
    raise TranslateError("bad formula")


MACRO_BODY = '!m.path.get_ident().is_some_and(|ident|ident=="view")'


def translate(src_path=SRC):
    src = strip_comments(open(src_path, encoding="utf8").read())
    rules = {}       # model tag -> ("c", b) | ("set", {(tag, idx)})
    arm_slots = {}   # TArm slots referenced from EMatch

    # is_dyn_macro: must be exactly the known predicate
    body = re.sub(r"#\[[^\]]*\]", "", fn_body(src, "is_dyn_macro"))
    if re.sub(r"\s+", "", body) != MACRO_BODY:
        raise TranslateError("is_dyn_macro has an unexpected body: %r" % body.strip())

    def do_family(fam, fname, variants, prefix_check):
        body = fn_body(src, fname)
        toks = tokenize(body)
        p = Parser(toks, fam)
        prefix_check(p)
        seen = set()
        default = [None]

        def on_arm(p, variant, binders):
            if variant == "_":
                f = p.or_expr()
                default[0] = simplify(f, {})
                return
            if variant not in variants:
                raise TranslateError("%s: unknown variant %s" % (fname, variant))
            seen.add(variant)
            base = fam + variant
            p.tag = base
            p.env = {}
            real = [b for b in binders]
            if len(real) == 1:
                if real[0] != "_":
                    p.env[real[0]] = ""
            else:
                for idx, b in enumerate(real):
                    if b != "_":
                        p.env[b] = str(idx)
            f = p.or_expr()
            if variant == "Macro":
                rules[base + "View"] = simplify(f, {"view": True})
                rules[base + "Other"] = simplify(f, {"view": False})
            elif base == "PReference":
                rules["PReference"] = simplify(f, {"mut": False})
                rules["PReferenceMut"] = simplify(f, {"mut": True})
            elif base == "PIdent":
                rs = [simplify(f, {"ref": r, "mut": m}) for r, m in ((False, False), (True, False), (False, True))]
                if not (rs[0] == rs[1] == rs[2]):
                    raise TranslateError("Pat::Ident: rule depends on by_ref/mutability beyond `ref mut`")
                rules["PIdent"] = rs[0]
                rules["PIdentRefMut"] = simplify(f, {"ref": True, "mut": True})
            else:
                rules[base] = simplify(f, {})

        p.arms(on_arm)
        dflt = default[0]
        for v in variants:
            if v in seen:
                continue
            if dflt is None:
                raise TranslateError("%s: variant %s not covered and no default arm" % (fname, v))
            if v == "Macro":
                rules[fam + "MacroView"] = dflt
                rules[fam + "MacroOther"] = dflt
            elif fam + v == "PReference":
                rules["PReference"] = rules["PReferenceMut"] = dflt
            elif fam + v == "PIdent":
                rules["PIdent"] = rules["PIdentRefMut"] = dflt
            else:
                rules[fam + v] = dflt

    def expr_prefix(p):
        p.eat("match")
        p.eat("ex")
        p.eat("{")

    def pat_prefix(p):
        p.eat("match")
        p.eat("pat")
        p.eat("{")

    def block_prefix(p):
        for t in ["block", ".", "stmts", ".", "iter", "(", ")", ".", "any", "(", "|", "s", ":", "&", "syn", "::",
                  "Stmt", "|", "match", "s", "{"]:
            p.eat(t)

    do_family("E", "is_dyn", EXPR_TAGS, expr_prefix)
    do_family("P", "is_dyn_pattern", PAT_TAGS, pat_prefix)
    do_family("S", "is_dyn_block", STMT_TAGS, block_prefix)
    rules["TBlock"] = ("set", frozenset([("TBlock", 0)]))   # `block.stmts.iter().any(..)`

    # split the inlined Arm rule out of Expr::Match
    out = {}
    tarm = set()
    for tag, r in rules.items():
        if r[0] == "c":
            out[tag] = r
            continue
        own = set()
        for (t2, idx) in r[1]:
            if t2 == tag:
                own.add(idx)
            elif t2 == "TArm" and tag == "EMatch":
                tarm.add(idx)
                own.add(1)
            else:
                raise TranslateError("rule of %s mentions a slot of %s" % (tag, t2))
        out[tag] = ("set", frozenset(own))
    out["TArm"] = ("set", frozenset(tarm)) if tarm else ("c", False)
    if rules.get("EMatch", ("c", True))[0] == "c":
        out["TArm"] = rules["EMatch"]
    return out


def render(rules):
    def r2s(r):
        if r[0] == "c":
            return "RConst %s" % ("true" if r[1] else "false")
        return "RAny [%s]" % "; ".join(str(i) for i in sorted(r[1]))
    lines = ["(* GENERATED by tools/c18_translate.py from packages/sycamore-view-parser/src/codegen.rs",
             "   (is_dyn, is_dyn_pattern, is_dyn_block, is_dyn_macro). Do not edit. *)",
             "From Coq Require Import List.", "From Syc Require Import ViewMacro.Syntax.", "Import ListNotations.", "",
             "Definition dyn_rule (t : tag) : rule :=", "  match t with"]
    for tag in sorted(rules):
        lines.append("  | %s => %s" % (tag, r2s(rules[tag])))
    lines.append("  end.")
    return "\n".join(lines) + "\n"


if __name__ == "__main__":
    print(render(translate()))
