"""C13 -- suspense reports loading exactly while tasks are pending, in any order (DESIGN.md 5.C13).
This check covers the sycamore-futures level (counters, is_loading, all completion orders); the rendering level
(blocking / streaming SSR) is exercised by its second part through harness/ssr-driver."""
import itertools
import random

import asyncgen
import susrender
import vlib

PID = "C13"
THEOREMS = ['C13_is_loading_iff_pending', 'C13_global_loading_iff', 'C13_is_loading_chain', 'C13_report_depends_on_pending_set',
            'C13r_blocking_returns_when_finished', 'C13r_blocking_never', 'C13r_blocking_content', 'C13r_stream_once', 'C13r_stream_parent_first',
            'C13r_stream_script_never_fails', 'C13r_stream_live', 'C13r_stream_equals_blocking',
            'C13x_translation_conservative', 'C13x_dynamic_blocks_transparent', 'C13x_transition_is_boundary', 'C13x_until_contributes_nothing',
            'C13x_flip_when_after', 'C13x_stream_equals_blocking',
            'C13s_boundary_loading_iff_resource_loading', 'C13s_boundary_loading_iff_latest_outstanding']


def trees(rng, tier):
    """trees of <= 3 boundaries with <= 2 tasks each (1-2 chained awaits), plus tasks outside any boundary"""
    out = []
    shapes = [
        lambda t: [("sus", 1, t(2))],
        lambda t: [("sus", 1, t(1) + [("sus", 2, t(2))])],
        lambda t: [("sus", 1, t(1)), ("sus", 2, t(1))],
        lambda t: [("sus", 1, t(1) + [("sus", 2, t(1) + [("sus", 3, t(1))])])],
        lambda t: [("sus", 1, [("sus", 2, t(1)), ("sus", 3, t(1))] + t(1))],
        lambda t: t(1) + [("sus", 1, t(2))],
        lambda t: [("sus", 1, [("scope", 7, t(2))])],
        lambda t: [("sus", 1, []), ("sus", 2, t(1))],
    ]
    for sh in shapes:
        for variant in range(3 if tier == "quick" else 8):
            ctr = [0]

            def t(k):
                r = []
                for _ in range(rng.randint(1, k) if k > 1 else 1):
                    ctr[0] += 1
                    r.append(("task", ctr[0], rng.choice([1, 1, 2, 0] if variant else [1])))
                return r
            out.append(sh(t))
    return out


def schedules(prog, rng, tier):
    tasks, _, _ = asyncgen.info(prog)
    gos = [t for t, (n, _, _) in tasks.items() for _ in range(n)]
    perms = set(itertools.permutations(gos)) if len(gos) <= 5 else set()
    perms = sorted(perms)
    if len(perms) > (40 if tier == "quick" else 400):
        perms = rng.sample(perms, 40 if tier == "quick" else 400)
    if not perms:
        perms = [tuple(rng.sample(gos, len(gos))) for _ in range(20)]
    return [[("go", t) for t in p] for p in perms]


def oracle(prog, steps, lines):
    """is_loading(b) <=> some task registered on b or on an enclosing boundary is unfinished"""
    tasks, sus_parent, _ = asyncgen.info(prog)
    left = {t: n for t, (n, _, _) in tasks.items()}
    fails = []
    for k, l in enumerate(lines[:-1]):
        evs, loads = asyncgen.parse_line(l)
        if k > 0:
            s = steps[k - 1]
            if s[0] == "go" and left.get(s[1], 0) > 0:
                left[s[1]] -= 1
        if any(e.startswith("PANIC") for e in evs):
            fails.append({"step": k, "what": "panic", "events": evs})
        for b, (outer, inner) in loads.items():
            chain = []
            x = b
            while x is not None:
                chain.append(x)
                x = sus_parent.get(x)
            expect = any(left[t] > 0 and sus in chain for t, (n, _, sus) in tasks.items() if sus is not None)
            for who, v in (("scope.is_loading()", outer), ("use_is_loading()", inner)):
                if v != str(int(expect)):
                    fails.append({"step": k, "what": "is_loading wrong", "boundary": b, "probe": who, "reported": v,
                                  "unfinished_tasks_under_it_or_an_ancestor": expect})
    evs, _ = asyncgen.parse_line(lines[-1])
    if any(e.startswith("PANIC") for e in evs):
        fails.append({"step": "end", "what": "panic while the executor drops the remaining tasks", "events": evs})
    return fails


def top_async(views):
    """an async component outside every boundary"""
    return any(v[0] == "async" or (v[0] == "el" and top_async(v[2])) for v in views)


def main(argv):
    a, seed = vlib.args(argv)
    chk = vlib.Check(PID, a.tier, seed, "proof")
    rng = random.Random(seed * 7937 + 13)
    chk.trusted = ["Coq 8.16.1 kernel + vm_compute", "hand-written LTS coq/theories/Async/Suspense.v tied to sycamore-futures by this correspondence run",
                   "harness/futures-driver (explicit schedules on a current-thread tokio runtime + LocalSet)", "tools/asyncgen.py, tools/c13.py",
                   "modelled, not verified: tokio's LocalSet scheduling (replaced by the explicit schedule), futures::Abortable, oneshot channels"]
    chk.assumptions = ["FIFO polling of woken tasks by the LocalSet (observed, not modelled beyond the order of log lines)"]
    chk.rule = ("8 shapes of trees of <= 3 nested / sibling suspense boundaries with 1-2 tasks each (0-2 chained awaits), tasks outside boundaries; "
                "ALL orders in which the awaits complete when there are <= 5 of them (sampled to 40 per tree in quick); is_loading of every "
                "boundary (both scope.is_loading() and use_is_loading()) after every step; non-trivial = a schedule during which some boundary "
                "was loading only because of an enclosing boundary; distinct = distinct (tree, schedule)")
    ok, msg = vlib.proof_step(chk, "C13+C13s+C13x", ["theories/Props/C13.vo", "theories/Props/C13s.vo", "theories/Props/C13x.vo"], THEOREMS)
    broken = [] if ok else ["theorem: " + msg]
    okb, outb, binp = vlib.cargo_build("futures-driver")
    chk.obligation("cargo build futures-driver against /repo", okb, outb)
    if not okb:
        chk.violation({"property": PID, "broken": "harness build", "output": outb[-2000:]}, no_input=True)
        return chk.finish()
    cases = []
    for prog in trees(rng, a.tier):
        for s in schedules(prog, rng, a.tier):
            cases.append((prog, s))
    try:
        impl = asyncgen.run_impl(binp, cases)
    except RuntimeError as e:
        chk.violation({"property": PID, "broken": "driver run", "detail": str(e)}, no_input=True)
        return chk.finish()
    model = None
    vlib.coq_make(["theories/Async/Suspense.vo"])
    try:
        model = asyncgen.run_model(PID, cases)
    except RuntimeError as e:
        broken.append("model evaluation: " + str(e)[-500:])
        chk.obligation("model evaluation", False, str(e))
    mism, orfail = [], []
    for i, ((prog, steps), lines) in enumerate(zip(cases, impl)):
        key = asyncgen.sx_nodes(prog) + asyncgen.sx_steps(steps)
        fails = oracle(prog, steps, lines)
        tasks, sus_parent, _ = asyncgen.info(prog)
        chk.note_case(key, any(p is not None for p in sus_parent.values()) and len(steps) >= 2)
        if fails:
            orfail.append({"program": asyncgen.sx_nodes(prog), "schedule": asyncgen.sx_steps(steps), "failures": fails[:3], "output": lines})
        if model is not None and model[i] != lines:
            mism.append({"program": asyncgen.sx_nodes(prog), "schedule": asyncgen.sx_steps(steps), "impl": lines, "model": model[i]})
    chk.traces = len(cases) if model is not None else 0
    chk.exhaustive = True
    chk.obligation("correspondence: LTS = implementation on %d (tree, schedule) pairs" % len(cases), model is not None and not mism, str(mism[:1]))
    chk.obligation("oracle: is_loading <=> an unfinished task under the boundary or an ancestor, after every step", not orfail, str(orfail[:1]))
    for i in (0, len(cases) // 2, len(cases) - 1):
        chk.sample({"program": asyncgen.sx_nodes(cases[i][0]), "schedule": asyncgen.sx_steps(cases[i][1]), "output": impl[i]})
    # ---- part 2: the three SSR modes (Async/Stream.v against render_to_string / _await_suspense / _stream) ----
    okb, outb, binr = vlib.cargo_build("ssr-driver")
    chk.obligation("cargo build ssr-driver against /repo", okb, outb)
    if not okb:
        chk.violation({"property": PID, "broken": "harness build", "output": outb[-2000:]}, no_input=True)
        return chk.finish()
    rcases = susrender.cases(a.tier, rng)
    try:
        rimpl = susrender.run_impl(binr, rcases)
    except RuntimeError as e:
        chk.violation({"property": PID, "broken": "ssr-driver run", "detail": str(e)}, no_input=True)
        return chk.finish()
    rmodel = None
    vlib.coq_make(["theories/Async/StreamX.vo"])
    try:
        rmodel = susrender.run_model(PID + "r", rcases)
    except RuntimeError as e:
        broken.append("model evaluation (Stream.v): " + str(e)[-500:])
        chk.obligation("model evaluation (Stream.v)", False, str(e))
    if ok:
        try:
            hyp = vlib.coq_eval(PID + "h", susrender.PRE + "Require Syc.Async.StreamFacts.\nFrom Syc Require Import Async.StreamX.\n",
                                ["Common.Show.show_nat (List.length (List.filter (fun vs => negb (Syc.Async.StreamFacts.uniq_idsb vs && Syc.Async.StreamFacts.no_top_asyncb vs)) %s))"
                                 % vlib.glist(["(Syc.Async.StreamX.wrap %s)" % vlib.glist([susrender.cqx(v) for v in vs]) for vs, _ in rcases])])
            chk.obligation("hypotheses of the streaming theorems (unique boundary ids, no async component outside the boundaries) hold for the %d generated views" % len(rcases),
                           hyp == ["0"], "views outside the hypotheses: " + str(hyp))
        except RuntimeError as e:
            chk.obligation("hypotheses of the streaming theorems evaluated", False, str(e)[-800:])
    rmism = []
    for i, ((vs, sched), im) in enumerate(zip(rcases, rimpl)):
        obs = susrender.observe(*im)
        seen = susrender.model_lines(obs, sched)
        fails = susrender.oracle(vs, sched, obs)
        key = "R" + " ".join(susrender.sx(v) for v in vs) + str(sched)
        nested = any(c[0] == "sus" or (c[0] == "async" and any(x[0] == "sus" for x in c[2])) for v in vs if v[0] == "sus" for c in v[2])
        chk.note_case(key, nested and len(sched) >= 2)
        inp = {"view": " ".join(susrender.sx(v) for v in vs), "gates_opened_in_order": sched}
        if fails:
            orfail.append({"program": inp["view"], "schedule": str(sched), "failures": fails[:4], "output": seen})
        if rmodel is not None and susrender.normalize_model(rmodel[i]) != seen:
            mism.append({"program": inp["view"], "schedule": str(sched), "impl": seen, "model": rmodel[i]})
            rmism.append(i)
    chk.traces += len(rcases) if rmodel is not None else 0
    chk.obligation("correspondence: Stream.v = the three SSR modes on %d (view, gate order) pairs" % len(rcases), rmodel is not None and not rmism, str(mism[-1:]))
    chk.obligation("oracle: sync = fallbacks; blocking returns exactly when all tasks finished with every boundary resolved; streaming = shell once, "
                   "each boundary once, never before its parent (the inline script finds its markers), shell + fragments = blocking result",
                   not [o for o in orfail if o["program"].startswith("(")], str(orfail[:1]))
    # content outside the boundary whose task removes it (lenient on what the client shows, strict on the blocking render)
    lcases = susrender.cases(a.tier, rng, lenient=True)
    lfail = []
    try:
        limpl = susrender.run_impl(binr, lcases)
        lmodel = susrender.run_model(PID + "l", lcases)
        for i, ((vs, sched), im) in enumerate(zip(lcases, limpl)):
            obs = susrender.observe(*im)
            fails = susrender.oracle(vs, sched, obs, lenient=True)
            chk.note_case("L" + " ".join(susrender.sx(v) for v in vs) + str(sched), True)
            inp = " ".join(susrender.sx(v) for v in vs)
            if fails:
                lfail.append({"program": inp, "schedule": str(sched), "failures": fails[:4], "output": susrender.model_lines(obs, sched)})
            elif top_async(susrender.model_view(vs)):
                # the translation puts an async component outside every boundary (the flip sits in the removed region): Stream.v does
                # not wait for those (hypothesis of its theorems); oracle only
                pass
            elif susrender.normalize_model(lmodel[i])[1] != susrender.model_lines(obs, sched)[1]:
                mism.append({"program": inp, "schedule": str(sched), "impl": susrender.model_lines(obs, sched)[1], "model": lmodel[i][1]})
                broken.append("correspondence (blocking render, content removed from outside): " + inp)
    except RuntimeError as e:
        lfail.append({"program": "lenient family", "schedule": "", "failures": [str(e)[-600:]]})
    chk.obligation("oracle and Stream.v (blocking line) on %d (view, gate order) pairs in which a task of one boundary removes content -- loading boundaries included -- that lies outside it: "
                   "the blocking render returns exactly when the surviving tasks have finished, the stream ends, repeats nothing and never panics" % len(lcases),
                   not lfail and not any(b.startswith("correspondence (blocking render, content removed") for b in broken), str(lfail[:1]))
    orfail += lfail
    # a Resource read under a boundary is a task registered under it, and every refetch registers again: the boundary must report
    # loading exactly while the resource's latest fetch is outstanding (histories of C15; real sycamore-web Resource, ssr-driver)
    import c15
    hist = c15.gen(a.tier, rng)
    text = "\n".join("(resource (%s) sus)" % " ".join("(%s %d)" % st for st in c) for c in hist) + "\n"
    rc, so, se = vlib.run_driver(binr, text, timeout=3000)
    blocks = so.rstrip("\n").split("\n==\n")
    rfail = []
    if rc != 0 or len(blocks) != len(hist):
        rfail.append({"program": "resource-under-boundary", "schedule": "", "failures": [{"what": "driver run", "stderr": se[-800:]}]})
    else:
        for c, b in zip(hist, blocks):
            ls = b.split("\n")
            sched = "(resource (%s) sus)" % " ".join("(%s %d)" % st for st in c)
            if ls[0] == "PANIC" or ls[-1] != "end panics=0":
                rfail.append({"program": "resource-under-boundary", "schedule": sched, "failures": [{"what": "panic", "line": ls[-1]}]})
                continue
            body = ls[:-1]
            # the property's letter: loading iff some task registered under the boundary is unfinished. The latest fetch is such a task
            # while it is outstanding; when every fetch that was started has been completed by the schedule nothing is left. (In
            # between, a superseded fetch that has not completed counts only if it was not cancelled: the model says it is cancelled,
            # and decides that case through the correspondence below.)
            bad = []
            completed = set()
            for j, l in enumerate(body):
                f = dict(x.split("=") for x in l.split())
                if j > 0 and c[j - 1][0] == "complete" and c[j - 1][1] < int(dict(x.split("=") for x in body[j - 1].split())["started"]):
                    completed.add(c[j - 1][1])          # (a completion of a fetch that has not been started yet completes nothing)
                if f["loading"] == "1" and f["sus"] != "1":
                    bad.append({"step": j, "what": "the boundary is not loading although the latest fetch of the resource read under it is outstanding", "line": l})
                if f["sus"] == "1" and all(k in completed for k in range(int(f["started"]))):
                    bad.append({"step": j, "what": "the boundary is loading although every fetch that was started has completed", "line": l})
            bad += [dict(f, what="(resource clause) " + f["what"]) for f in c15.oracle(c, [l.rsplit(" sus=", 1)[0] for l in body])]
            if bad:
                rfail.append({"program": "resource-under-boundary", "schedule": sched, "failures": bad[:3], "output": body})
    # ... and the bookkeeping model Async/ResourceSus.v (guards, registered scopes, task guards -> the boundary's counter) predicts every line
    smism = []
    try:
        pre_s = "From Coq Require Import List ZArith String.\nFrom Syc Require Import Async.Resource Async.ResourceSus.\nImport ListNotations.\n"
        exprs = ["run_resources_sus %s" % vlib.glist([vlib.glist([("RWrite (%d)%%Z" if st[0] == "write" else "RComplete %d") % st[1] for st in c]) for c in hist[i:i + 200]])
                 for i in range(0, len(hist), 200)]
        outs = vlib.coq_eval(PID + "s", pre_s, exprs, per_file=max(1, (len(exprs) + 15) // 16))
        smodel = [b.split("\n") for o in outs for b in o.split("\n==\n")]
        if len(smodel) == len(hist) == len(blocks):
            for c, b, m in zip(hist, blocks, smodel):
                if b.split("\n")[:-1] != m:
                    smism.append({"program": "resource-under-boundary", "schedule": str(c), "impl": b.split("\n")[:-1], "model": m})
            chk.traces += len(hist)
        else:
            smism.append({"program": "resource-under-boundary", "what": "block count"})
    except RuntimeError as e:
        smism.append({"program": "resource-under-boundary", "what": "model evaluation", "detail": str(e)[-500:]})
    chk.obligation("correspondence: Async/ResourceSus.v = the real Resource under a real boundary on %d histories (value, is_loading, fetches started, boundary loading)" % len(hist),
                   not smism, str(smism[:1]))
    mism += smism
    chk.obligation("oracle: a boundary under which a Resource is read reports loading exactly while the resource's latest fetch is outstanding, through every "
                   "refetch (%d histories of dependency writes and completions)" % len(hist), not rfail, str(rfail[:1]))
    orfail += rfail
    chk.sample({"view": " ".join(susrender.sx(v) for v in rcases[-1][0]), "schedule": rcases[-1][1], "observed": susrender.model_lines(susrender.observe(*rimpl[-1]), rcases[-1][1])})
    if orfail:
        orfail.sort(key=lambda o: len(o["program"]) + len(o["schedule"]))
        chk.violation({"property": PID, "kind": "oracle failure on implementation output", "input": orfail[0], "count": len(orfail), "also_broken": broken})
    elif mism or broken:
        chk.violation({"property": PID, "kind": "proof/correspondence broken, oracle clean on all inputs explored", "broken": broken,
                       "mismatches": mism[:3], "mismatch_count": len(mism)}, no_input=True)
    return chk.finish()
