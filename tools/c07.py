"""C07 -- list mapping preserves per-item results and scopes across updates (DESIGN.md 5.C07)."""
import itertools
import random

import vlib
from vlib import glist

PID = "C07"
THEOREMS = ["C07_indexed_refines", "C07_indexed_chain", "C07_keyed_refines", "C07_keyed_chain", "C07_keyed_history"]


def all_lists(keys, maxlen):
    out = []
    for n in range(maxlen + 1):
        for t in itertools.permutations(keys, n):
            out.append(list(t))
    return out


def gen(tier, rng):
    chains = []   # (mode, tag, chain of lists of (key, payload))
    keys = [1, 2, 3, 4]
    ls = all_lists(keys, 4)          # 65 duplicate-free key lists
    pay = lambda k: rng.choice([0, 0, 0, k, 7])
    pairs = list(itertools.product(ls, ls))
    if tier == "quick":
        rng.shuffle(pairs)
        pairs = pairs[:1500]
    for a, b in pairs:
        ca = [(k, pay(k)) for k in a]
        # same key keeps its payload most of the time ("same key, different value" sometimes)
        pa = dict(ca)
        cb = [(k, pa.get(k, pay(k)) if rng.random() < 0.8 else pay(k) + 1) for k in b]
        for mode in ("K", "I"):
            chains.append((mode, "pair", [ca, cb]))
    # every chain of 3 lists over 3 keys
    l3 = all_lists([1, 2, 3], 3)
    triples = list(itertools.product(l3, repeat=3))
    if tier == "quick":
        rng.shuffle(triples)
        triples = triples[:600]
    for t in triples:
        chains.append(("K", "chain3", [[(k, 0) for k in l] for l in t]))
    # random chains of 10 over 8 keys including empty lists
    for _ in range(150 if tier == "quick" else 3000):
        ch = []
        for _ in range(10):
            n = rng.choice([0, 1, 2, 3, 5, 8])
            ks = rng.sample(range(1, 9), n)
            ch.append([(k, rng.choice([0, 1])) for k in ks])
        chains.append((rng.choice(["K", "I"]), "random10", ch))
    # duplicate keys: model-vs-code only (the property is silent there)
    for _ in range(150 if tier == "quick" else 3000):
        ch = []
        for _ in range(4):
            n = rng.randint(0, 5)
            ch.append([(rng.randint(1, 3), rng.choice([0, 1])) for _ in range(n)])
        chains.append((rng.choice(["K", "I"]), "dupkeys", ch))
    # every pair of lists of length <= 3 over two keys, duplicates included (finding F18: the suffix scan stopping at the common prefix)
    small = [list(t) for n in range(4) for t in itertools.product([1, 2], repeat=n)]
    for a in small:
        for b in small:
            chains.append(("K", "dupkeys", [[(k, 0) for k in a], [(k, 0) for k in b]]))
    return chains


def fmt_chain(mode, chain):
    return mode + " " + "|".join(" ".join("%d:%d" % it for it in l) for l in chain)


def cq_chain(chain):
    return glist([glist(["(%d, %d)" % it for it in l]) for l in chain])


def parse_line(l):
    if l == "PANIC":
        return None
    out, ev, n = [x.strip() for x in l.split(";")]
    return ([int(x) for x in out.split()[1:]], ev.split()[1:], int(n.split()[1]))


def oracle(mode, chain, lines):
    """python restatement: keyed: reuse by key / create / dispose exactly the leavers; indexed: recompute exactly the
    positions whose value changed or appeared, dispose exactly what is replaced or truncated"""
    fails = []
    old = []       # list of (item, id)
    nxt = 0
    for step, new in enumerate(chain):
        if step >= len(lines) or lines[step] is None:
            fails.append({"step": step, "what": "panic"})
            break
        out, evs, live = lines[step]
        keys_new = [k for k, _ in new]
        keys_old = [it[0] for it, _ in old]
        if mode == "K" and (len(set(keys_new)) != len(keys_new) or len(set(keys_old)) != len(keys_old)):
            return fails, False          # duplicate keys: the property is silent
        exp_out, exp_c, exp_d = [], [], []
        if mode == "K":
            byk = {it[0]: i for it, i in old}
            for it in new:
                if it[0] in byk:
                    exp_out.append(byk[it[0]])
                else:
                    exp_out.append(nxt)
                    exp_c.append("c:%d:%d:%d" % (it[0], it[1], nxt))
                    nxt += 1
            exp_d = ["d:%d" % i for it, i in old if it[0] not in set(keys_new)]
            new_old = list(zip(new, exp_out))
        else:
            for j, it in enumerate(new):
                if j < len(old) and old[j][0] == it:
                    exp_out.append(old[j][1])
                else:
                    if j < len(old):
                        exp_d.append("d:%d" % old[j][1])
                    exp_out.append(nxt)
                    exp_c.append("c:%d:%d:%d" % (it[0], it[1], nxt))
                    nxt += 1
            exp_d += ["d:%d" % i for it, i in old[len(new):]]
            new_old = list(zip(new, exp_out))
        got_c = [e for e in evs if e.startswith("c:")]
        got_d = [e for e in evs if e.startswith("d:")]
        if out != exp_out:
            fails.append({"step": step, "what": "one output per input, reused by key/position", "expected": exp_out, "got": out})
        if got_c != exp_c:
            fails.append({"step": step, "what": "map_fn called exactly for new keys / changed positions", "expected": exp_c, "got": got_c})
        if sorted(got_d) != sorted(exp_d):
            fails.append({"step": step, "what": "cleanups run exactly once for leavers / replaced positions", "expected": exp_d, "got": got_d})
        if live != len(new):
            fails.append({"step": step, "what": "one live item scope per item", "live_scopes": live, "items": len(new)})
        if fails:
            break
        old = new_old
    return fails, True


def main(argv):
    a, seed = vlib.args(argv)
    chk = vlib.Check(PID, a.tier, seed, "proof")
    rng = random.Random(seed * 31337 + 7)
    chk.trusted = ["Coq 8.16.1 kernel + vm_compute", "hand-written model coq/theories/ListMap/Keyed.v tied to iter.rs by this correspondence run",
                   "harness/list-driver (canonical printer; map_fn = fresh id + on_cleanup logger)", "tools/c07.py (generators, python oracle)",
                   "modelled, not verified: HashMap (association list), Vec, NodeHandle scopes (identified with the call id)"]
    chk.rule = ("keyed and indexed: pairs of duplicate-free key lists over 4 keys of length <= 4 (all 4225 in thorough, a sample in quick) "
                "with payload variation; chains of 3 over 3 keys; random chains of 10 over 8 keys incl. empty lists; duplicate-key chains "
                "(model-vs-code only); non-trivial = an update that both reuses and creates or disposes; distinct = distinct chain text")
    ok, msg = vlib.proof_step(chk, "C07", ["theories/Props/C07.vo", "theories/ListMap/Show.vo"], THEOREMS)
    broken = [] if ok else ["theorem: " + msg]
    okb, out, binp = vlib.cargo_build("list-driver")
    chk.obligation("cargo build list-driver against /repo", okb, out)
    if not okb:
        chk.violation({"property": PID, "broken": "harness build", "output": out[-2000:]}, no_input=True)
        return chk.finish()
    cases = gen(a.tier, rng)
    rc, so, se = vlib.run_driver(binp, "\n".join(fmt_chain(m, c) for m, _, c in cases) + "\n")
    blocks = so.rstrip("\n").split("\n==\n")
    if rc != 0 or len(blocks) != len(cases):
        chk.violation({"property": PID, "broken": "driver run", "rc": rc, "stderr": se[-1500:]}, no_input=True)
        return chk.finish()
    impl = [b.split("\n") for b in blocks]
    model = None
    try:
        ok2, out2 = vlib.coq_make(["theories/ListMap/Show.vo"])
        if not ok2:
            raise RuntimeError("model does not compile: " + out2[-500:])
        pre = ("From Coq Require Import List String.\nFrom Syc Require Import ListMap.Keyed ListMap.Show.\nImport ListNotations.\n")
        exprs, order = [], []
        for mode in ("K", "I"):
            idx = [i for i, c in enumerate(cases) if c[0] == mode]
            for k in range(0, len(idx), 100):
                part = idx[k:k + 100]
                exprs.append("run_chains %s %s" % ("true" if mode == "K" else "false", glist([cq_chain(cases[i][2]) for i in part])))
                order.append(part)
        outs = vlib.coq_eval(PID, pre, exprs, per_file=max(1, (len(exprs) + 15) // 16))
        model = {}
        for o, part in zip(outs, order):
            bl = o.split("\n==\n")
            for i, b in zip(part, bl):
                model[i] = b.split("\n")
    except RuntimeError as e:
        broken.append("model evaluation: " + str(e)[-500:])
        chk.obligation("model evaluation", False, str(e))
    mism, orfail, dist = [], [], {}
    for i, ((mode, tag, chain), lines) in enumerate(zip(cases, impl)):
        parsed = [parse_line(l) for l in lines]
        fails, applicable = oracle(mode, chain, parsed)
        key = fmt_chain(mode, chain)
        nontriv = any(p and any(e.startswith("c:") for e in p[1]) and (any(e.startswith("d:") for e in p[1]) or len(p[0]) > sum(1 for e in p[1] if e.startswith("c:")))
                      for p in parsed[1:])
        chk.note_case(key, nontriv)
        dist[mode + ":" + tag] = dist.get(mode + ":" + tag, 0) + 1
        if fails:
            orfail.append({"chain": key, "failures": fails})
        if model is not None and model.get(i) != lines:
            mism.append({"chain": key, "impl": lines, "model": model.get(i)})
    chk.traces = len(cases) if model is not None else 0
    chk.cov["distribution"] = dist
    chk.exhaustive = a.tier == "thorough"
    chk.obligation("correspondence: model = implementation on %d chains" % len(cases), model is not None and not mism, str(mism[:2]))
    chk.obligation("oracle (property restated) on implementation output", not orfail, str(orfail[:2]))
    for i in (0, len(cases) // 2, len(cases) - 1):
        chk.sample({"chain": fmt_chain(cases[i][0], cases[i][2]), "impl": impl[i]})
    if orfail:
        orfail.sort(key=lambda o: len(o["chain"]))
        chk.violation({"property": PID, "kind": "oracle failure on implementation output", "input": orfail[0], "count": len(orfail), "also_broken": broken})
    elif mism or broken:
        chk.violation({"property": PID, "kind": "proof/correspondence broken, oracle clean on all inputs explored", "broken": broken,
                       "mismatches": mism[:3], "mismatch_count": len(mism)}, no_input=True)
    return chk.finish()
