"""C19 -- interpolation helpers are total and hit their endpoints (DESIGN.md 5.C19)."""
import math
import random
import struct

import vlib
from vlib import glist

PID = "C19"
THEOREMS = ["C19_lerp_int_start", "C19_lerp_int_end", "C19_lerp_int_between", "C19_ease_endpoints", "C19_ease_finite", "C19_ease_unit_interval",
            "C19_ease_endpoints_exact", "C19_lerp_f32_finite", "C19_lerp_f32_start", "C19_lerp_f32_from_start", "C19_pinned_refuted"]

TYPES = {"i8": (True, 8), "i16": (True, 16), "i32": (True, 32), "i64": (True, 64), "i128": (True, 128), "isize": (True, 64),
         "u8": (False, 8), "u16": (False, 16), "u32": (False, 32), "u64": (False, 64), "u128": (False, 128), "usize": (False, 64)}
EASE = ["linear", "quad_in", "quad_out", "quad_inout", "cubic_in", "cubic_out", "cubic_inout", "quart_in", "quart_out",
        "quart_inout", "quint_in", "quint_out", "quint_inout", "circ_in", "circ_out", "circ_inout", "bounce_in", "bounce_out",
        "bounce_inout", "expo_in", "expo_out", "expo_inout", "sine_in", "sine_out", "sine_inout"]
N_MODELLED = 19


def bits(x):
    return struct.unpack("<I", struct.pack("<f", x))[0]


def unbits(b):
    return struct.unpack("<f", struct.pack("<I", b))[0]


SCALARS = [bits(0.0), bits(1.0), bits(0.5), bits(1.0 / 3.0), bits(0.1), bits(2.0 ** -23), 0x3f7fffff, bits(0.75), 1, bits(0.9999)]


def bounds(t):
    sg, n = TYPES[t]
    return (-(1 << (n - 1)), (1 << (n - 1)) - 1) if sg else (0, (1 << n) - 1)


def gen_int(tier, rng):
    """(type, a, b, scalar bits, compare with model?)"""
    cases = []
    # all pairs of 8-bit integers x the scalars: oracle on all, model on a sample
    for t in ("u8", "i8"):
        lo, hi = bounds(t)
        allp = [(a, b) for a in range(lo, hi + 1) for b in range(lo, hi + 1)]
        sample = set(rng.sample(range(len(allp)), 2500 if tier == "quick" else 20000))
        for i, (a, b) in enumerate(allp):
            for s in SCALARS[:7]:
                cases.append((t, a, b, s, i in sample and s in SCALARS[:4]))
    for t in TYPES:
        if t in ("u8", "i8"):
            continue
        lo, hi = bounds(t)
        pts = [lo, lo + 1, hi, hi - 1, 0, 1, -1, 1 << 23, -(1 << 23), (1 << 23) + 1, (1 << 24) + 1, 100, 200, -100, 12345, 1 << 31, (1 << 31) - 1, (1 << 63) - 1]
        pts = sorted(set(p for p in pts if lo <= p <= hi))
        for a in pts:
            for b in pts:
                for s in SCALARS[:5]:
                    cases.append((t, a, b, s, True))
        m = min(hi, 1 << 23)
        ml = max(lo, -(1 << 23))
        for _ in range(300 if tier == "quick" else 5000):
            a, b = rng.randint(ml, m), rng.randint(ml, m)
            cases.append((t, a, b, rng.choice(SCALARS + [bits(rng.random())]), True))
        for _ in range(100 if tier == "quick" else 2000):
            a, b = rng.randint(lo, hi), rng.randint(lo, hi)
            cases.append((t, a, b, bits(rng.random()), True))
        # equal or nearly equal endpoints of large magnitude with non-dyadic scalars: roundings of the two products
        # (or of the sum) must not push the result out of [min, max]
        if hi >= (1 << 23):
            for _ in range(300 if tier == "quick" else 5000):
                v = rng.randint(1 << 21, 1 << 23) * (rng.choice([1, -1]) if lo < 0 else 1)
                w = max(lo, min(hi, v + rng.choice([0, 0, 1, -1, 2, -2, 7])))
                if abs(v) <= (1 << 23) and abs(w) <= (1 << 23):
                    cases.append((t, v, w, bits(rng.randint(1, 999) / 1000.0), True))
    return cases


def grid(tier, rng):
    n = 1 << 12 if tier == "quick" else 1 << 16
    pts = [bits(i / n) for i in range(n + 1)]
    # subnormals, near the branch thresholds of the piecewise functions, near 1
    pts += [1, 2, 0x007fffff, 0x00800000, bits(0.5) - 1, bits(0.5) + 1, 0x3f7fffff, 0x3f7ffffe]
    for th in (1 / 2.75, 2 / 2.75, 2.5 / 2.75, 0.5):
        b = bits(th)
        pts += [b - 2, b - 1, b, b + 1, b + 2]
    return sorted(set(pts))


def oracle_int(t, a, b, s, out):
    """the property text, directly"""
    if out == "PANIC":
        return "lerp panicked"
    r = int(out)
    if abs(a) <= (1 << 23) and abs(b) <= (1 << 23):
        sv = unbits(s)
        if sv == 0.0 and r != a:
            return "lerp(a, b, 0) != a"
        if sv == 1.0 and r != b:
            return "lerp(a, b, 1) != b"
        if 0.0 <= sv <= 1.0 and not (min(a, b) <= r <= max(a, b)):
            return "result not between the endpoints"
    return None


def main(argv):
    a, seed = vlib.args(argv)
    chk = vlib.Check(PID, a.tier, seed, "proof")
    rng = random.Random(seed * 65537 + 19)
    chk.trusted = ["Coq 8.16.1 kernel + vm_compute", "Flocq 4.1 (IEEE754.BinarySingleNaN) and the Coq Reals it builds on",
                   "hand-written model coq/theories/Motion/*.v tied to motion.rs / easing.rs by bit-exact comparison",
                   "harness/motion-driver", "tools/c19.py (generators, oracle)",
                   "modelled, not verified: the platform's f32 arithmetic (compared bit for bit), LLVM's powi(x, 2) = x * x",
                   "not modelled: the six easing functions that call libm (expo_*, sine_*): oracle only; Tweened / requestAnimationFrame"]
    chk.assumptions = ["axioms: those of the Coq Reals and of Flocq (ClassicalDedekindReals.sig_forall_dec, sig_not_dec, "
                       "FunctionalExtensionality.functional_extensionality_dep, Classical_Prop.classic) where a theorem uses B2R"]
    chk.rule = ("integer lerp: all 2^16 pairs of u8 and of i8 x 7 scalars (oracle on all, model on a sample), boundary and random pairs of every "
                "wider type x scalars incl. 0, 1, 0.5, 1/3, 0.1, eps, 1-eps; f32 lerp on special and random bit patterns; arrays; easing: "
                "a 2^12 (quick) / 2^16 (thorough) grid of [0,1] plus subnormals and points around the branch thresholds, bit-exact against the "
                "model for the 19 libm-free functions; debug and release builds; non-trivial = an integer case with a != b and 0 < s < 1, or "
                "an easing point strictly inside (0,1); distinct = distinct request")
    ok, msg = vlib.proof_step(chk, "C19", ["theories/Props/C19.vo", "theories/Motion/Show.vo"], THEOREMS, allow_axioms=vlib.STDLIB_AXIOMS)
    broken = [] if ok else ["theorem: " + msg]
    okb, out, binp = vlib.cargo_build("motion-driver")
    okr, outr, binr = vlib.cargo_build("motion-driver", release=True)
    chk.obligation("cargo build motion-driver (debug and release) against /repo", okb and okr, out + outr)
    if not (okb and okr):
        chk.violation({"property": PID, "broken": "harness build", "output": (out + outr)[-2000:]}, no_input=True)
        return chk.finish()

    ints = gen_int(a.tier, rng)
    f32s = []
    specials = [0, 0x80000000, 0x7f800000, 0xff800000, 0x7fc00000, 1, 0x007fffff, 0x7f7fffff, 0xff7fffff, bits(1.0), bits(-1.0), bits(0.1)]
    for x in specials:
        for y in specials:
            for s in SCALARS[:5]:
                f32s.append((x, y, s))
    for _ in range(500 if a.tier == "quick" else 10000):
        f32s.append((rng.getrandbits(32), rng.getrandbits(32), rng.choice(SCALARS + [bits(rng.random())])))
    pts = grid(a.tier, rng)
    reqs = []
    for t, x, y, s, _ in ints:
        reqs.append("LI %s %d %d %d" % (t, x, y, s))
    n_int = len(reqs)
    for x, y, s in f32s:
        reqs.append("LF %d %d %d" % (x, y, s))
    n_f32 = len(reqs)
    for _ in range(200):
        reqs.append("LD %d %d %d" % (rng.getrandbits(64), rng.getrandbits(64), bits(rng.random())))
    arr = []
    for _ in range(200):
        xs = [rng.randint(-(1 << 23), 1 << 23) for _ in range(3)]
        ys = [rng.randint(-(1 << 23), 1 << 23) for _ in range(3)]
        s = rng.choice(SCALARS)
        arr.append((xs, ys, s))
        reqs.append("LA %s %s %d" % (",".join(map(str, xs)), ",".join(map(str, ys)), s))
        for x, y in zip(xs, ys):
            reqs.append("LI i32 %d %d %d" % (x, y, s))
    n_misc = len(reqs)
    for k in range(len(EASE)):
        for tb in pts:
            reqs.append("E %d %d" % (k, tb))
    text = "\n".join(reqs) + "\n"
    rc, so, se = vlib.run_driver(binp, text)
    rc2, so2, se2 = vlib.run_driver(binr, text)
    dbg, rel = so.split("\n")[:-1], so2.split("\n")[:-1]
    if rc != 0 or rc2 != 0 or len(dbg) != len(reqs) or len(rel) != len(reqs):
        chk.violation({"property": PID, "broken": "driver run", "stderr": (se + se2)[-1500:]}, no_input=True)
        return chk.finish()

    orfail = []
    for i, (t, x, y, s, _) in enumerate(ints):
        for build, outv in (("debug", dbg[i]), ("release", rel[i])):
            w = oracle_int(t, x, y, s, outv)
            if w:
                orfail.append({"what": w, "type": t, "a": x, "b": y, "scalar": unbits(s), "scalar_bits": s, "build": build, "result": outv})
        chk.note_case(reqs[i], x != y and 0.0 < unbits(s) < 1.0)
    for i in range(n_int, n_misc):
        if dbg[i] == "PANIC" or rel[i] == "PANIC":
            orfail.append({"what": "lerp panicked", "request": reqs[i]})
        chk.note_case(reqs[i], True)
    j = n_f32 + 200
    for xs, ys, s in arr:
        got = dbg[j]
        exp = ",".join(dbg[j + 1:j + 4])
        if got != exp:
            orfail.append({"what": "array lerp differs from element-wise lerp", "request": reqs[j], "got": got, "elementwise": exp})
        j += 4
    idx = n_misc
    for k in range(len(EASE)):
        for tb in pts:
            for build, outv in (("debug", dbg[idx]), ("release", rel[idx])):
                tv = unbits(tb)
                if outv in ("nan", "PANIC") or math.isinf(unbits(int(outv))):
                    orfail.append({"what": "easing not finite on [0,1]", "fn": EASE[k], "t": tv, "t_bits": tb, "build": build, "result": outv})
                elif tv == 0.0 and abs(unbits(int(outv))) > 1e-5:
                    orfail.append({"what": "easing(0) != 0 within 1e-5", "fn": EASE[k], "build": build, "result": unbits(int(outv))})
                elif tv == 1.0 and abs(unbits(int(outv)) - 1.0) > 1e-5:
                    orfail.append({"what": "easing(1) != 1 within 1e-5", "fn": EASE[k], "build": build, "result": unbits(int(outv))})
            chk.note_case(reqs[idx], 0.0 < unbits(tb) < 1.0)
            idx += 1
    chk.obligation("oracle (property text) on %d implementation results, debug and release" % len(reqs), not orfail, str(orfail[:3]))

    # model vs implementation, bit for bit
    mism = []
    try:
        pre = "From Coq Require Import ZArith List String.\nFrom Syc Require Import Motion.Show.\nImport ListNotations.\nOpen Scope Z_scope.\n"
        exprs, slots = [], []
        sel = [i for i, c in enumerate(ints) if c[4]]
        for k in range(0, len(sel), 400):
            part = sel[k:k + 400]
            exprs.append("run_lerp_int %s" % glist(["(%s, %d, %d, %d, %d)" % ("true" if TYPES[ints[i][0]][0] else "false", TYPES[ints[i][0]][1],
                                                                               ints[i][1], ints[i][2], ints[i][3]) for i in part]))
            slots.append(part)
        for k in range(0, len(f32s), 400):
            exprs.append("run_lerp_f32 %s" % glist(["(%d, %d, %d)" % c for c in f32s[k:k + 400]]))
            slots.append(list(range(n_int + k, n_int + min(k + 400, len(f32s)))))
        for kf in range(N_MODELLED):
            for k in range(0, len(pts), 700):
                exprs.append("run_ease %d %s" % (kf, glist([str(p) for p in pts[k:k + 700]])))
                base = n_misc + kf * len(pts)
                slots.append(list(range(base + k, base + min(k + 700, len(pts)))))
        outs = vlib.coq_eval(PID, pre, exprs, per_file=max(1, (len(exprs) + 31) // 32))
        n_cmp = 0
        for o, part in zip(outs, slots):
            vals = o.split("\n")
            for i, v in zip(part, vals):
                n_cmp += 1
                if dbg[i] != v:
                    mism.append({"request": reqs[i], "impl": dbg[i], "model": v})
        chk.traces = n_cmp
        chk.obligation("correspondence: model = implementation bit for bit on %d requests" % n_cmp, not mism, str(mism[:3]))
    except RuntimeError as e:
        broken.append("model evaluation: " + str(e)[-500:])
        chk.obligation("model evaluation", False, str(e))
    drel = [(reqs[i], dbg[i], rel[i]) for i in range(len(reqs)) if dbg[i] != rel[i]]
    chk.cov["debug_release_differences"] = len(drel)
    chk.cov["requests"] = {"int": n_int, "f32": n_f32 - n_int, "f64+array": n_misc - n_f32, "easing": len(reqs) - n_misc}
    chk.exhaustive = True
    for i in (0, n_int // 2, n_int + 3, n_misc + 5, len(reqs) - 1):
        chk.sample({"request": reqs[i], "debug": dbg[i], "release": rel[i]})
    if orfail:
        orfail.sort(key=lambda o: len(str(o)))
        chk.violation({"property": PID, "kind": "oracle failure on implementation output", "input": orfail[0], "more": orfail[1:5],
                       "count": len(orfail), "also_broken": broken})
    elif mism or broken:
        chk.violation({"property": PID, "kind": "proof/correspondence broken, oracle clean on all inputs explored", "broken": broken,
                       "mismatches": mism[:5], "mismatch_count": len(mism), "debug_vs_release": drel[:3]}, no_input=True)
    return chk.finish()
