"""C09 -- hydration adopts the server DOM and leaves it reactive (DESIGN.md 5.C09)."""
import random

import c05
import clientmodel
import hydmodel
import domlib
import viewgen
import vlib

PID = "C09"


def norm_nodes(ns, for_compare=True):
    """drop hydration artefacts: data-hk / data-hydrated attributes, the text of marker comments"""
    out = []
    for n in ns:
        if n[0] == "E":
            tag, attrs = n[2].split(":", 1)
            keep = sorted(a for a in attrs.split(",") if a and not a.startswith("646174612d686b=") and not a.startswith("646174612d6879647261746564="))
            out.append(("E", tag + ":" + ",".join(keep)))
        elif n[0] == "C":
            out.append(("C", ""))
        else:
            out.append((n[0], n[2]))
    return out


def merge_text(ns):
    """adjacent text nodes and empty text nodes are not distinguishable in the visible tree"""
    out = []
    for n in ns:
        if n[0] == "T":
            if n[1] == "":
                continue
            if out and out[-1][0] == "T":
                out[-1] = ("T", out[-1][1] + n[1])
                continue
        out.append(n)
    return out


def gen(tier, rng):
    cases = []
    feats_plain = {"list": 0, "show": 1, "nossr": 0.5, "nohydrate": 0.5}
    n = 500 if tier == "quick" else 6000
    for i in range(n):
        feats = feats_plain if i % 3 else {"nossr": 0.5, "nohydrate": 0.5}
        st, v = viewgen.random_view(rng, rng.choice([2, 3, 4]), feats)
        ops = c05.gen_ops(rng, st, rng.randint(0, 4))
        cases.append((st, v, ops))
    # the soft spots named in the design: empty dynamic string, adjacent dynamic texts, dynamic view first / last, top-level fragments
    extra = [
        ({"s": {0: ""}, "b": {}, "l": {}}, ("el", "p", [], [("dyntext", 0)]), [("s", 0, "x")]),
        ({"s": {0: "a", 1: "b"}, "b": {}, "l": {}}, ("el", "p", [], [("dyntext", 0), ("dyntext", 1)]), [("s", 1, "c"), ("s", 0, "d")]),
        ({"s": {}, "b": {0: True}, "l": {}}, ("el", "div", [], [("dyn", 0, [("el", "span", [], [])], []), ("text", "t")]), [("b", 0, False), ("b", 0, True)]),
        ({"s": {}, "b": {0: False}, "l": {}}, ("frag", [("text", "a"), ("dyn", 0, [("text", "y")], [("text", "n")]), ("el", "p", [], [])]), [("b", 0, True)]),
        ({"s": {}, "b": {0: True, 1: True}, "l": {}}, ("el", "div", [], [("dyn", 0, [("dyn", 1, [("text", "x")], [])], [])]), [("b", 1, False), ("b", 0, False)]),
        ({"s": {}, "b": {0: False}, "l": {}}, ("el", "div", [], [("show", 0, [("el", "p", [], [])]), ("el", "span", [], [])]), [("b", 0, True)]),
        ({"s": {}, "b": {}, "l": {0: [1, 2]}}, ("el", "ul", [], [("list", True, 0, [("el", "li", [], [("item",)])])]), [("l", 0, [2, 1, 3])]),
        ({"s": {}, "b": {0: True}, "l": {}}, ("el", "div", [], [("show", 0, [("text", "plain")])]), [("b", 0, False)]),
    ]
    return extra + cases


def judge(ci, st, v, ops, out, line, h, orfail):
    """the oracle on one scenario (real SSR output -> real hydration -> writes); appends to orfail; returns non-trivial?"""
    html = bytes.fromhex(h).decode("utf8", "replace")
    base = {"case": ci, "view": viewgen.sx_view(v), "state": viewgen.sx_state(st), "server_html": html[:600], "scenario": line}
    dyn = any(t in viewgen.sx_view(v) for t in ("(dyn", "(show", "(list"))
    if out[0].startswith("PANIC"):
        orfail.append(dict(base, what="hydration panicked on output of the same view", message=bytes.fromhex(out[0][6:]).decode("utf8", "replace")))
        return False
    pre = c05.parse_nodes(out[0].split(" ; nodes ")[1])
    changed = False
    cur = st
    prev = None
    for k, l in enumerate(out[1:]):
        if l.startswith("PANIC"):
            orfail.append(dict(base, what="panic after hydration", step=k, message=bytes.fromhex(l[6:]).decode("utf8", "replace")))
            break
        parts = dict(p.split(" ", 1) if " " in p else (p, "") for p in l.split(" ; "))
        nodes = c05.parse_nodes(parts["nodes"])
        fresh = c05.parse_nodes(parts["fresh"])
        if k > 0:
            cur = c05.apply_op(cur, ops[k - 1])
        if k == 0:
            # every server element is adopted exactly once: same element ids, in the same order, none recreated
            # (the <no-ssr> placeholder is replaced by the client-only content on mount, by design)
            NOSSR = "6e6f2d737372:"
            pre_el = [n[1] for n in pre if n[0] == "E" and not n[2].startswith(NOSSR)]
            pre_ids = set(pre_el)
            post_el = [n[1] for n in nodes if n[0] == "E" and n[1] in pre_ids]
            new_el = [n for n in nodes if n[0] == "E" and n[1] not in pre_ids and "646174612d686b=" in n[2]]
            if new_el:
                orfail.append(dict(base, what="an element carrying a hydration key was created by the client instead of being adopted"))
                break
            if pre_el != post_el:
                orfail.append(dict(base, what="server-rendered elements were recreated, moved or dropped by hydration", before=pre_el, after=post_el))
                break
            # ... and stamped: all and only the elements carrying a hydration key
            for n in nodes:
                if n[0] == "E":
                    attrs = n[2].split(":", 1)[1]
                    has_hk = "646174612d686b=" in attrs
                    stamped = "646174612d6879647261746564=" in attrs
                    if has_hk != stamped:
                        orfail.append(dict(base, what="an element with a hydration key was not claimed (or one without was)", element=n[2][:120]))
                        break
            # the visible tree is unchanged
            # (NoSsr content appears only on the client, by design)
            if not has_kind(v, "nossr") and merge_text([x for x in norm_nodes(pre) if x[0] != "C"]) != merge_text([x for x in norm_nodes(nodes) if x[0] != "C"]):
                orfail.append(dict(base, what="hydration changed the visible tree"))
                break
        if int(parts["warn"]) > 0 and False:
            pass
        # afterwards the view reacts exactly as a client-rendered one
        vis = lambda ns: merge_text([x for x in norm_nodes(ns) if x[0] != "C"])      # marker comments are not part of the visible tree
        # (NoHydrate content stays as the server sent it, by design: not comparable with a client render)
        if not has_kind(v, "nohydrate") and vis(nodes) != vis(fresh):
            orfail.append(dict(base, what="hydrated DOM differs from a fresh client render of the current state", step=k,
                               dom=bytes.fromhex(parts["dom"]).decode("utf8", "replace")[:600]))
            break
        if prev is not None and prev != parts["nodes"]:
            changed = True
        prev = parts["nodes"]
    return dyn and changed


def main(argv):
    a, seed = vlib.args(argv)
    chk = vlib.Check(PID, a.tier, seed, "proof")
    rng = random.Random(seed * 3001 + 9)
    chk.trusted = ["the in-process DOM harness/dom/shims/web-sys (incl. its HTML parser for the server output) standing in for a browser",
                   "tools/domgen.py (generated crate root, client polarity)", "harness/ssr-driver (real native SSR) and harness/dom/dom-driver (real hydration code)",
                   "tools/viewgen.py, tools/c05.py, tools/c09.py"]
    chk.assumptions = ["sync SSR mode only (as the property says); suspense / streaming hydration is outside this check"]
    chk.rule = ("random view trees of depth <= 4 over the hydratable vocabulary (elements, text, dynamic text / views with siblings, fragments, components, "
                "Show, NoHydrate / NoSsr, Keyed / Indexed in a third of the cases) plus 8 hand-picked soft spots; the server string comes from the real "
                "native SSR build, is parsed into the in-process DOM and hydrated by the real HydrateNode code; then 0-4 signal writes; non-trivial = the "
                "view contains a dynamic construct and at least one write changed the DOM; distinct = distinct (state, view, ops)")
    chk.cov["explanation"] = ("Coq theorems relating the server build (Ssr/View.v) and the client model (Dom/Client.v): same visible tree, same elements in key order, same behaviour under writes; end-to-end differential check: real SSR output -> real hydration code on an in-process DOM -> fresh client render, node identities of the parsed server DOM, and the client model through every write")
    okp, msgp = vlib.proof_step(chk, "C09+C05+C09h+C09i", ["theories/Props/C09.vo", "theories/Props/C05.vo", "theories/Props/C09h.vo", "theories/Props/C09i.vo", "theories/Dom/ClientShow.vo"],
                                ["C09_visible_tree", "C09_keys", "C09_updates_agree", "C05_fresh_render_every_step", "C05_run_dom_nodup",
                                 "C09_hydrate_ok", "C09_hydrate_nodes", "C09_hydrate_client", "C09h_class_exact_on_enumeration",
                                 "C09i_agreement", "C09i_agreement_walk", "C09i_hydrated", "C09i_reacts", "C09i_run_from", "C09i_keeps", "C09i_ids", "C09i_run_ids"])
    okb, outb, ssr = vlib.cargo_build("ssr-driver")
    chk.obligation("cargo build ssr-driver against /repo", okb, outb)
    binp = domlib.build(chk)
    if not binp or not okb:
        chk.violation({"property": PID, "broken": "harness build"}, no_input=True)
        return chk.finish()
    cases = gen(a.tier, rng)
    text = "\n".join("(seq (sync %s %s))" % (viewgen.sx_state(st), viewgen.sx_view(v)) for st, v, _ in cases) + "\n"
    rc, so, se = vlib.run_driver(ssr, text)
    htmls = [b.split(" ")[0] for b in so.rstrip("\n").split("\n==\n")]
    if rc != 0 or len(htmls) != len(cases):
        chk.violation({"property": PID, "broken": "ssr-driver run", "stderr": se[-1000:]}, no_input=True)
        return chk.finish()
    lines = ["(hydrate x%s %s %s (%s))" % (h, viewgen.sx_state(st), viewgen.sx_view(v), " ".join(c05.sx_op(o) for o in ops))
             for (st, v, ops), h in zip(cases, htmls)]
    try:
        impl = domlib.run(binp, lines)
    except RuntimeError as e:
        chk.violation({"property": PID, "broken": "driver run", "detail": str(e)}, no_input=True)
        return chk.finish()
    orfail = []
    for ci, ((st, v, ops), out, line, h) in enumerate(zip(cases, impl, lines, htmls)):
        chk.note_case(line, judge(ci, st, v, ops, out, line, h, orfail))
    # correspondence with the client model Dom/Client.v: once hydrated, the visible tree after every write is the model's
    # (views whose scenario failed above are judged by the oracle; NoHydrate content stays as the server sent it, by design)
    failed = set(o["case"] for o in orfail)
    sel = [i for i, (st, v, ops) in enumerate(cases) if i not in failed and not has_kind(v, "nohydrate") and not impl[i][0].startswith("PANIC")
           and not c05.has_toplevel_dynamic_child(v) and not c05.has_toplevel_nossr(v)]
    mism = []
    okm, outm = vlib.coq_make(["theories/Dom/ClientShow.vo"])
    chk.obligation("coq build theories/Dom/ClientShow.vo (client model)", okm, outm)
    model = None
    if okm:
        try:
            model = clientmodel.run_model(PID, [cases[i] for i in sel])
        except RuntimeError as e:
            chk.obligation("model evaluation (Dom/Client.v)", False, str(e)[-800:])
    if model is not None:
        vis = lambda ns: merge_text([x for x in norm_nodes(ns) if x[0] != "C"])
        for i, mo in zip(sel, model):
            for k, (l, m) in enumerate(zip(impl[i][1:], mo)):
                parts = dict(p.split(" ", 1) if " " in p else (p, "") for p in l.split(" ; "))
                if vis(c05.parse_nodes(parts["nodes"])) != vis(c05.parse_nodes(m)):
                    mism.append({"scenario": lines[i], "step": k, "hydrated": parts["nodes"][:400], "model": m[:400]})
                    break
        chk.traces = len(sel)
    chk.obligation("correspondence: after hydration the visible tree follows Dom/Client.v through every write (%d scenarios)" % len(sel),
                   model is not None and not mism, str(mism[:1]))
    # correspondence with the hydration model Dom/Hydrate.v: given the REAL parsed server DOM it must predict the DOM right after
    # hydration (structure and which server nodes are still there) wherever the oracle found nothing wrong, and an error where the
    # real code panicked
    def pre_of(out):
        if out[0].startswith("pre "):
            return out[0].split(" ; nodes ")[1], (out[1] if len(out) > 1 else "PANIC")
        if out[0].startswith("PANIC") and len(out) > 1 and out[1].startswith("prenodes "):
            return out[1][len("prenodes "):], out[0]
        return None, None
    hsel = [i for i in range(len(cases)) if pre_of(impl[i])[0] is not None]
    hmism, hagree, herrs, hunsup = [], 0, 0, 0
    okh, outh = vlib.coq_make(["theories/Dom/Hydrate.vo"])
    chk.obligation("coq build theories/Dom/Hydrate.vo (hydration model)", okh, outh)
    hmodel = None
    if okh:
        try:
            ren = [hydmodel.renumber(pre_of(impl[i])[0]) for i in hsel]
            hmodel = hydmodel.run_model(PID + "h", [(cases[i][0], cases[i][1], r[0]) for i, r in zip(hsel, ren)])
        except RuntimeError as e:
            chk.obligation("model evaluation (Dom/Hydrate.v)", False, str(e)[-800:])
    if hmodel is not None:
        for i, (pre2, ids), mo in zip(hsel, ren, hmodel):
            realline = pre_of(impl[i])[1]
            if mo.startswith("UNSUPPORTED"):
                hunsup += 1
                continue
            if realline.startswith("PANIC"):
                if mo.startswith("ERR"):
                    herrs += 1
                elif i not in failed:
                    hmism.append({"scenario": lines[i], "what": "the real hydration panicked, the model did not"})
                continue
            if i in failed:
                continue                     # judged by the oracle (known findings): the model is not asked
            if mo.startswith("ERR"):
                hmism.append({"scenario": lines[i], "what": "the model fails (%s), the real hydration did not" % mo})
                continue
            parts = dict(p.split(" ", 1) if " " in p else (p, "") for p in realline.split(" ; "))
            if hydmodel.observation(parts["nodes"], ids) == hydmodel.observation(mo, {k: k for k in ids.values()}):
                hagree += 1
            else:
                hmism.append({"scenario": lines[i], "what": "DOM after hydration differs", "real": parts["nodes"][:400], "model": mo[:400]})
        chk.traces += hagree
        chk.cov["hydration_model"] = {"agree": hagree, "both_fail": herrs, "outside_model": hunsup}
    # the model's own server DOM (Ssr/View.v build -> parse: entities decoded, character data merged) = what the DOM shim's HTML
    # parser made of the real server string
    smism = []
    if hmodel is not None:
        try:
            sdom = hydmodel.run_server_dom(PID + "s", [(cases[i][0], cases[i][1]) for i in hsel])
            for i, (pre2, ids), sd in zip(hsel, ren, sdom):
                if pre2.strip() != sd.strip():
                    smism.append({"scenario": lines[i], "what": "parsed server DOM differs", "real": pre2[:400], "model": sd[:400]})
        except RuntimeError as e:
            smism.append({"what": "model evaluation (server_dom)", "detail": str(e)[-600:]})
    chk.obligation("correspondence: server_dom (model of the server output as a browser parses it) = the parsed real server string on %d views" % len(hsel),
                   hmodel is not None and not smism, str(smism[:1]))
    mism += smism
    chk.obligation("correspondence: Dom/Hydrate.v predicts the DOM right after hydration from the real server DOM (%d agree, %d predicted failures, %d outside the model)" % (hagree, herrs, hunsup),
                   hmodel is not None and not hmism, str(hmism[:1]))
    mism += hmism
    # the class of the adoption theorems (C09_hydrate_ok / _nodes / _client): `hydratable` evaluated on the generated views; for a view
    # in the class the real hydration must have succeeded and passed the oracle (the theorem promises it for the model, which the two
    # correspondences above tie to the code)
    if hmodel is not None and okp:
        try:
            allc = list(range(len(cases)))
            per = 60
            pre_h = hydmodel.PRE.replace("Dom.Hydrate.", "Dom.Hydrate Dom.HydrateSpec.")
            exprs = ["lines (map (fun p => if hydratable (fst p) (snd p) then \"1\" else \"0\") %s)"
                     % vlib.glist(["(%s, %s)" % (viewgen.cq_state(cases[i][0]), viewgen.cq_view(cases[i][1])) for i in allc[j:j + per]])
                     for j in range(0, len(allc), per)]
            outs = vlib.coq_eval(PID + "c", pre_h, exprs, per_file=max(1, (len(exprs) + 31) // 32))
            flags = [l for o in outs for l in o.split("\n")]
            inclass = [i for i, f in zip(allc, flags) if f == "1"]
            bad = [i for i in inclass if i in failed or impl[i][0].startswith("PANIC")]
            chk.cov["hydratable_class"] = {"views": len(cases), "in_class": len(inclass)}
            chk.obligation("hypothesis of the adoption theorems: %d of %d generated views are in the class `hydratable`; the real hydration of "
                           "each of them succeeded and passed the oracle" % (len(inclass), len(cases)), len(flags) == len(cases) and inclass and not bad,
                           str([lines[i][:300] for i in bad[:2]]))
            if bad:
                mism.append({"what": "a view in the class of the adoption theorems fails in the real code", "scenario": lines[bad[0]]})
            # the hydrated INSTANCE (Dom/HydrateInst.v, theorems C09i_*): for the views that are hydratable and live, hydratei is run on
            # the REAL parsed server DOM and the instance is updated through the writes of the scenario: after hydration and after every
            # write the elements of the instance, in document order, each with the server node it adopted (or 'new'), must be what the
            # real DOM shows
            pre_k = (pre_h.replace("Dom.HydrateSpec.", "Dom.HydrateSpec Dom.Client Dom.HydrateInst.") +
                     "Fixpoint el_ids (d : dnode) : list nat := match d with DEl id _ _ ch => id :: flat_map el_ids ch | _ => [] end.\n"
                     "Definition keep_case (st : vstate) (v : view) (server : list hnode) (ws : list (sigid * (option string * bool * list Z))) : string :=\n"
                     "  if negb (hydratable st v && live st v) then \"SKIP\" else\n"
                     "  match hydratei st v server 2000 4000 with\n"
                     "  | HOk (_, i, c) => join \"|\" (map (fun d => join \" \" (map (fun n => if Nat.ltb n 2000 then show_nat n else \"n\") (flat_map el_ids d))) (dom_of i :: run_from st v i c ws))\n"
                     "  | HErr _ => \"ERR\" end.\n")
            ksel = [(i, r) for i, r in zip(hsel, ren) if i not in failed and not impl[i][0].startswith("PANIC")]
            kexprs = ["lines %s" % vlib.glist(["(keep_case (%s) (%s) %s %s)" % (viewgen.cq_state(cases[i][0]), viewgen.cq_view(cases[i][1]), hydmodel.cq_tree(hydmodel.parse_tree(r[0])),
                                                                             vlib.glist([clientmodel.cq_op(o) for o in cases[i][2]])) for i, r in ksel[j:j + 20]])
                      for j in range(0, len(ksel), 20)]
            kouts = [l for o in vlib.coq_eval(PID + "k", pre_k, kexprs, per_file=max(1, (len(kexprs) + 31) // 32)) for l in o.split("\n")]
            kbad, kn = [], 0
            for (i, (pre2, ids)), ko in zip(ksel, kouts):
                if ko == "SKIP":
                    continue
                kn += 1
                real_steps = []
                for l in impl[i]:
                    parts = dict(p.split(" ", 1) if " " in p else (p, "") for p in l.split(" ; "))
                    real_steps.append(" ".join(str(ids[n[1]]) if n[1] in ids else "n" for n in c05.parse_nodes(parts["nodes"]) if n[0] == "E"))
                if "|".join(real_steps) != ko:
                    kbad.append({"scenario": lines[i][:400], "what": "elements of the hydrated instance (adopted server node or new) differ", "real": "|".join(real_steps)[:300], "model": ko[:300]})
            chk.cov["hydrated_instance"] = {"compared": kn}
            chk.traces += kn
            chk.obligation("correspondence: the hydrated instance (Dom/HydrateInst.v on the REAL server DOM, then Dom/Client.v update) has, after hydration and after every "
                           "write, the elements the real DOM has, adopted server nodes identified (%d hydratable live views)" % kn, len(kouts) == len(ksel) and kn > 0 and not kbad, str(kbad[:1]))
            mism += kbad
        except RuntimeError as e:
            chk.obligation("evaluation of `hydratable` on the generated views", False, str(e)[-600:])
            mism.append({"what": "evaluation of hydratable", "detail": str(e)[-300:]})
    if hmodel is None:
        model = None
    # children-first family (oracle only: the models allocate keys parent-first): the same kind of views with every element's
    # children built BEFORE the element (a wrapper component that calls children.call() first, a child built first and inserted
    # later), on the server and on the client: hydration keys are then not in document order
    cf_cases = []
    for i in range(120 if a.tier == "quick" else 1500):
        st, v = viewgen.random_view(rng, rng.choice([2, 3, 4]), {"list": 0, "show": 1, "nossr": 0.5, "nohydrate": 0.5})
        cf_cases.append((st, v, c05.gen_ops(rng, st, rng.randint(0, 3))))
    E = lambda tag, *kids: ("el", tag, [], list(kids))
    cf_cases += [({"s": {0: "0"}, "b": {}, "l": {}}, E("section", E("p", ("text", "Count: "), ("dyntext", 0))), [("s", 0, "1")]),
                 ({"s": {0: "a"}, "b": {}, "l": {}}, ("el", "section", [("a", "class", "card")], [("el", "p", [("adyn", "class", 0)], [("text", "t")])]), [("s", 0, "b")]),
                 ({"s": {}, "b": {0: True}, "l": {}}, E("div", E("ul", E("li"), ("dyn", 0, [E("li", E("b"))], [])), E("span")), [("b", 0, False), ("b", 0, True)])]
    cf_fail = []
    text = "\n".join("(seq (synccf %s %s))" % (viewgen.sx_state(st), viewgen.sx_view(v)) for st, v, _ in cf_cases) + "\n"
    rc, so, se = vlib.run_driver(ssr, text)
    cf_html = [b.split(" ")[0] for b in so.rstrip("\n").split("\n==\n")]
    if rc != 0 or len(cf_html) != len(cf_cases):
        cf_fail.append({"case": 0, "view": "", "what": "ssr-driver run (children-first)", "stderr": se[-600:]})
    else:
        cf_lines = ["(hydratecf x%s %s %s (%s))" % (h, viewgen.sx_state(st), viewgen.sx_view(v), " ".join(c05.sx_op(o) for o in ops))
                    for (st, v, ops), h in zip(cf_cases, cf_html)]
        try:
            cf_impl = domlib.run(binp, cf_lines)
            for ci, ((st, v, ops), out, line, h) in enumerate(zip(cf_cases, cf_impl, cf_lines, cf_html)):
                if h == "PANIC":
                    cf_fail.append({"case": ci, "view": viewgen.sx_view(v), "what": "render_to_string panicked (children-first)", "scenario": line})
                    continue
                chk.note_case(line, judge(ci, st, v, ops, out, line, h, cf_fail))
        except RuntimeError as e:
            cf_fail.append({"case": 0, "view": "", "what": "driver run (children-first)", "detail": str(e)[-600:]})
    findings = {f["key"]: f for f in vlib.load_findings(PID)}
    real = []
    for o in cf_fail:
        st, v = cf_cases[o["case"]][0], cf_cases[o["case"]][1]
        key = classify(o, v, st) if o["view"] else None
        if key and key in findings:
            chk.known(findings[key], "e.g. (children-first) " + o["view"][:160])
        else:
            real.append(dict(o, mode="children-first: every element's children are built before the element"))
    chk.obligation("oracle, children-first family: hydration adopts every server element once although the hydration keys are not in document order (%d scenarios)" % len(cf_cases),
                   not real, str(real[:1]))
    for o in orfail:
        v = cases[o["case"]][1]
        key = classify(o, v, cases[o["case"]][0])
        if key and key in findings:
            chk.known(findings[key], "e.g. " + o["view"][:160])
        else:
            real.append(o)
    chk.obligation("oracle: hydration adopts every server element once, keeps the visible tree, never panics, then behaves like a client render (%d scenarios)" % len(cases),
                   not real, str(real[:2]))
    for i in (0, len(cases) // 2, len(cases) - 1):
        chk.sample({"scenario": lines[i][:500]})
    if real:
        real.sort(key=lambda o: len(o["view"]))
        chk.violation({"property": PID, "kind": "oracle failure on implementation output", "input": real[0], "count": len(real)})
    elif mism or model is None or not okp:
        chk.violation({"property": PID, "kind": "proof/correspondence broken, oracle clean on all inputs explored", "mismatches": mism[:3], "mismatch_count": len(mism), "theorems": "" if okp else msgp}, no_input=True)
    return chk.finish()


def creates_hydrated_element(vs):
    for v in vs:
        k = v[0]
        if k in ("el", "nossr"):
            return True
        if k == "dyn" and (creates_hydrated_element(v[2]) or creates_hydrated_element(v[3])):
            return True
        if k in ("frag", "comp") and creates_hydrated_element(v[1]):
            return True
        if k == "show" and creates_hydrated_element(v[2]):
            return True
        if k == "list" and creates_hydrated_element(v[3]):
            return True
    return False


def has_false_show_with_element(v, st):
    k = v[0]
    if k == "show":
        if not st["b"].get(v[1]) and creates_hydrated_element(v[2]):
            return True
        return any(has_false_show_with_element(c, st) for c in v[2])
    kids = v[3] if k == "el" else (v[2] + v[3] if k == "dyn" else (v[3] if k == "list" else (v[1] if k in ("frag", "comp", "nohydrate", "nossr") else [])))
    return any(has_false_show_with_element(c, st) for c in kids)


def nohydrate_marker_conflict(v):
    """matcher of F16: in some parent, a marker emitted inside NoHydrate precedes a hydrated construct that searches for the same kind of marker"""
    def flat(vs, noh):
        """the constructs that put nodes directly into the same DOM parent, in document order, with their NoHydrate flag: dynamic
        views, Show and lists are flat in the DOM, so their content belongs to the same parent as their markers"""
        out = []
        for x in vs:
            if x[0] in ("frag", "comp"):
                out += flat(x[1], noh)
            elif x[0] == "nohydrate":
                out += flat(x[1], True)
            elif x[0] == "dyn":
                out.append((x, noh))
                out += flat(x[2] + x[3], noh)
            elif x[0] == "show":
                out.append((x, noh))
                out += flat(x[2], noh)
            elif x[0] == "list":
                out.append((x, noh))
                out += flat(x[3], noh)
            else:
                out.append((x, noh))
        return out

    def conflict(kids):
        seq = flat(kids, False)
        for i, (x, noh) in enumerate(seq):
            if not noh:
                continue
            kind = "t" if x[0] == "dyntext" else ("/" if x[0] in ("dyn", "show") else None)
            if kind is None:
                continue
            for y, noh2 in seq[i + 1:]:
                if noh2:
                    continue
                if kind == "t" and y[0] == "dyntext":
                    return True
                if kind == "/" and y[0] in ("dyn", "show", "list"):
                    return True
        return False

    def rec(x):
        k = x[0]
        kids = x[3] if k == "el" else (x[2] + x[3] if k == "dyn" else (x[3] if k == "list" else (x[2] if k == "show" else (x[1] if k in ("frag", "comp", "nohydrate", "nossr") else []))))
        if k == "el" and conflict(kids):
            return True
        if k == "dyn" and (conflict(x[2]) or conflict(x[3])):
            return True
        if k in ("show", "list") and conflict(kids):
            return True
        return any(rec(c) for c in kids)
    return conflict([v]) or rec(v)


def classify(o, v, st=None):
    """structural matchers of the known findings of C09"""
    if nohydrate_marker_conflict(v) and (o["what"].startswith(("hydration changed", "hydrated DOM differs", "server-rendered elements")) or "not found" in o.get("message", "")
                                         or o["what"].startswith("after hydration")):
        return "F16-nohydrate-markers"
    if "not found" in o.get("message", "") and st is not None and has_false_show_with_element(v, st):
        return "F10-show-false-hydration"
    msg = o.get("message", "")
    if ("marker node not found" in msg or "text node not found" in msg or o["what"].startswith(("server-rendered elements", "hydrated DOM differs", "hydration changed"))) and has_list(v):
        return "F11-list-hydration-markers"
    if "node is not hydrated" in msg and has_show_with_static_text(v):
        return "F12-show-static-text"
    if not msg and any(x[0] == "show" and any(c[0] == "dyntext" for c in c05.toplevel(x[2])) for x in walk(v)):
        return "F13-show-dynamic-text"
    if "node is not hydrated" in msg and has_list(v):
        return "F11-list-hydration-markers"
    if c05.has_toplevel_nossr(v) and "<no-ssr" in o.get("dom", ""):
        return "F15-nossr-marker-in-snapshot"
    if c05.has_toplevel_dynamic_child(v):
        return "F9-toplevel-dynamic-child"
    return None


def walk(v):
    yield v
    k = v[0]
    kids = v[3] if k == "el" else (v[2] + v[3] if k == "dyn" else (v[3] if k == "list" else (v[2] if k == "show" else (v[1] if k in ("frag", "comp", "nohydrate", "nossr") else []))))
    for c in kids:
        yield from walk(c)


def has_kind(v, kind):
    return any(x[0] == kind for x in walk(v))


def has_list(v):
    return any(x[0] == "list" for x in walk(v))


def has_show_with_static_text(v):
    return any(x[0] == "show" and any(c[0] in ("text", "item") for c in c05.toplevel(x[2])) for x in walk(v))
