"""C11 -- scopes can be disposed at any point without panic or corruption (DESIGN.md 5.C11)."""
import copy

import rcheck
import reactive
import reactive_gen

PID = "C11"
FEATS = {"untracked": 0.1, "selector": 0.7, "effect": 2, "nested": 0.5, "scope": 1.5, "cleanup": 0.5, "dispose": 0.5,
         "batch": 1.5, "curscope": 0.6, "root_handle": 1, "late_create": 0.5, "runin": 0.3, "context": 0.4,
         "dispose_in_callback": 0.5, "dispose_in_cleanup": 0.4, "dispose_in_batch": 0.4, "ctx_in_callback": 0.2}


def positions(ss, path=()):
    """all statement positions of all blocks (callback bodies, cleanup bodies, batch bodies, scope bodies) with the names
    bound at that point"""
    out = []

    def walk(block, path, bound, in_user_code):
        for i in range(len(block) + 1):
            if in_user_code:
                out.append((path + (i,), list(bound)))
            if i == len(block):
                break
            s = block[i]
            k = s[0]
            if k in ("memo", "effect"):
                walk(s[2][2], path + (i, "body"), bound + [], True)
            elif k == "selector":
                walk(s[3][2], path + (i, "body"), bound + [], True)
            elif k in ("scope", "runin"):
                walk(s[2], path + (i, "block"), bound + [], in_user_code)
            elif k == "oncleanup":
                walk(s[2], path + (i, "block"), bound + [], True)
            elif k in ("batch",):
                walk(s[1], path + (i, "block1"), bound + [], True)
            elif k in ("untrack", "component"):
                walk(s[1], path + (i, "block1"), bound + [], in_user_code)
            if k in ("signal", "memo", "selector", "effect", "scope", "curscope"):
                bound = bound + [s[1]]

    walk(ss, (), [0], False)
    return out


def insert_at(ss, path, stmt):
    ss = copy.deepcopy(ss)

    def go(block, path):
        if len(path) == 1:
            block.insert(path[0], stmt)
            return
        i, kind = path[0], path[1]
        s = block[i]
        if kind == "body":
            body = s[2] if s[0] in ("memo", "effect") else s[3]
            go(body[2], path[2:])
        elif kind == "block":
            go(s[2], path[2:])
        else:
            go(s[1], path[2:])

    go(ss, path)
    return ss


BASES = [
    # effect inside a scope, reading a signal of an outer scope
    [("scope", 1, [("signal", 2, ("lit", 0)),
                   ("scope", 3, [("signal", 4, ("lit", 1)),
                                 ("effect", 5, ("body", None, [("curscope", 6), ("oncleanup", 1, [("log", ("getu", 2))])], ("add", ("get", 2), ("get", 4)))),
                                 ("memo", 7, ("body", None, [("curscope", 8)], ("mul", ("lit", 2), ("get", 2))))])]),
     ("runin", 1, [("set", 2, ("lit", 1))]), ("runin", 1, [("set", 2, ("lit", 2))])],
    # batch writing a signal of a scope
    [("scope", 1, [("signal", 2, ("lit", 0)), ("effect", 3, ("body", None, [], ("get", 2)))]),
     ("signal", 4, ("lit", 0)), ("effect", 5, ("body", None, [], ("get", 4))),
     ("runin", 1, [("batch", [("set", 2, ("lit", 1)), ("set", 4, ("lit", 1))])]), ("set", 4, ("lit", 2))],
    # nested effects with cleanups
    [("signal", 1, ("lit", 0)),
     ("scope", 2, [("effect", 3, ("body", None, [("curscope", 4), ("signal", 5, ("get", 1)),
                                                 ("effect", 6, ("body", None, [("curscope", 7), ("oncleanup", 2, [])], ("add", ("get", 5), ("get", 1)))),
                                                 ("oncleanup", 3, [])], ("get", 1)))]),
     ("set", 1, ("lit", 1)), ("set", 1, ("lit", 2)), ("dispose", 2), ("set", 1, ("lit", 3))],
]


def fault_injection(tier, rng):
    """one Dispose inserted at every statement position of every callback / cleanup / batch body, for every
    scope nameable there (ancestors and the running computation included)"""
    out = []
    for b, base in enumerate(BASES):
        for path, bound in positions(base):
            for x in bound:
                out.append(("inject:%d:%s:%d" % (b, ".".join(map(str, path)), x), insert_at(base, path, ("dispose", x))))
    return out


def read_then_dispose(rng, n):
    out = []
    for i in range(n):
        prog = [("signal", 1, ("lit", 0)),
                ("effect", 2, ("body", None, [("signal", 3, ("get", 1)), ("log", ("get", 3)), ("dispose", 3)], ("get", 1))),
                ("memo", 4, ("body", None, [("scope", 5, [("signal", 6, ("lit", 1))]), ("log", ("get", 6)), ("dispose", 5)], ("get", 1)))]
        for _ in range(rng.randint(1, 3)):
            prog.append(("set", 1, ("lit", rng.randint(0, 3))))
        out.append(prog)
    return out


def gen(tier, rng):
    n = 1200 if tier == "quick" else 12000
    cases = fault_injection(tier, rng)
    cases += [("read-then-dispose:%d" % i, p) for i, p in enumerate(read_then_dispose(rng, 5))]
    import c04
    cases += [(t, p[:-1]) for t, p in c04.cleanup_creates()]        # F20 shapes, without the final root disposal
    cases += resubscribe_during_disposal()
    cases += [("random:%d" % i, p) for i, p in
              enumerate(reactive_gen.random_programs(rng.randrange(1 << 30), n, FEATS, (4, 9), (3, 8), max_nodes=10))]
    return cases


def resubscribe_during_disposal():
    """a computation that is being disposed wakes (through a cleanup that writes a signal) an outside watcher which reads it again
    while it is still alive: the watcher must not keep an edge to the dead node, and later updates must work"""
    out = []
    k = 0
    for comp in ("memo", "selector"):
        for where in ("own", "child"):
            for trig in ("dispose_scope", "dispose_node", "from_effect", "in_batch"):
                cl = ("oncleanup", 1, [("set", 2, ("add", ("getu", 2), ("lit", 1)))])
                ss = [cl] if where == "own" else [("scope", 9, [cl])]
                body = ("body", None, ss, ("mul", ("get", 1), ("lit", 2)))
                node = (comp, 4, body) if comp != "selector" else ("selector", 4, 0, body)
                watcher = ("effect", 5, ("body", None, [("track", 2)], ("ite", ("alive", 4), ("getu" if comp == "effect" else "get", 4), ("lit", -1))))
                # the watcher names the node, so it is created inside the block, but it is owned by the outer scope (run_in)
                prog = [("signal", 1, ("lit", 1)), ("signal", 2, ("lit", 0)), ("signal", 8, ("lit", 0)), ("curscope", 7),
                        ("scope", 3, [node, ("runin", 7, [watcher])])]
                if trig == "dispose_scope":
                    prog += [("dispose", 3)]
                elif trig == "dispose_node":
                    prog[-1] = ("scope", 3, [node, ("runin", 7, [watcher, ("effect", 6, ("body", None, [("if", ("lt", ("lit", 0), ("get", 8)), [("dispose", 4)], [])], ("lit", 0)))])])
                    prog += [("set", 8, ("lit", 1))]
                elif trig == "from_effect":
                    prog += [("effect", 6, ("body", None, [("if", ("lt", ("lit", 0), ("get", 8)), [("dispose", 3)], [])], ("lit", 0))), ("set", 8, ("lit", 1))]
                else:
                    prog += [("batch", [("set", 1, ("lit", 3)), ("dispose", 3)])]
                prog += [("set", 2, ("lit", 50)), ("set", 1, ("lit", 7)), ("set", 2, ("lit", 51))]
                out.append(("resubscribe:%d" % k, prog))
                k += 1
    return out


def oracle(prog, steps):
    fails = rcheck.runtime_panic_failures(prog, steps)
    fails += rcheck.consistency_failures(prog, steps)       # later updates are not corrupted
    fails += [f for f in rcheck.ownership_failures(prog, steps) if f["oracle"] in ("live-nodes=owned-nodes", "no-dead-subscribers", "cleanup-at-most-once")]
    return fails


def nontrivial(prog, steps):
    """a disposal happened while a callback, cleanup or batch body was running (node count dropped within a step that
    also ran user code)"""
    for a, b in zip(steps, steps[1:]):
        if a["snap"] and b["snap"] and b["snap"]["n"] < a["snap"]["n"] and any(
                l.startswith(("run ", "cleanup ", "batch ")) for l in b["events"]):
            return True
    return False


def site_scan():
    """source-derived tie: the unchecked node-table indexing sites of sycamore-reactive are exactly those the model accounts for"""
    import sites
    extra, missing = sites.diff()
    ok = not extra and not missing
    return [("source scan: every unchecked node-table index of sycamore-reactive is a site of the runtime model (tools/sites_expected.json, %d sites)" % len(sites.expected()),
             ok, "new unchecked sites: %s ; vanished: %s" % (extra, missing))]


def main(argv):
    return rcheck.run(
        PID, argv, module="C11", theorems=["C11_no_runtime_panic_program", "C11_no_runtime_panic", "C11_no_runtime_panic_dispose", "C11_wf_init",
                                        "C11_wf_preserved", "C11_no_stale_edges", "C11_guarded_sites"], gen=gen, oracle=oracle, nontrivial=nontrivial,
        rule=("fault injection: a Dispose of every nameable scope inserted at every statement position of every callback, cleanup "
              "and batch body of 3 base programs (one insertion per case, exhaustive); read-then-dispose programs; random programs "
              "with disposals from callbacks, cleanups and batches; non-trivial = a node was destroyed during a step that ran user "
              "code; distinct = distinct program text"),
        assumptions=["use of a disposed signal by the program itself is a user error (panic 'signal was disposed'), not a runtime panic"],
        extra_obligations=site_scan)
