"""Correspondence between coq/theories/Dom/Client.v (instance-tree model of the client back end) and the real DomNode code run by
harness/dom/dom-driver: per step the node structure (kinds, payloads, attributes as a sorted list) and the identity pattern
(for every node after a write: the position of the very same node before the write, or -1)."""
import vlib
import viewgen
from vlib import glist

PRE = ("From Coq Require Import List String ZArith.\nFrom Syc Require Import Common.Show Ssr.Html Ssr.View Dom.Client Dom.ClientShow.\n"
       "Import ListNotations.\nOpen Scope string_scope.\n")


def cq_op(op):
    kind, k, v = op
    if kind == "s":
        return "(CS %d, (%s, false, []))" % (k, "None" if v is None else "Some " + viewgen.cq_str(v))
    if kind == "b":
        return "(CB %d, (None, %s, []))" % (k, "true" if v else "false")
    return "(CL %d, (None, false, %s))" % (k, glist(["(%d)%%Z" % i for i in v]))


def parse_dump(s):
    """-> list of (kind, id, payload) ; payload of an element = tag + sorted attributes"""
    out = []
    for t in s.split():
        if t == "e":
            out.append(("e", None, ""))
            continue
        kind, rest = t[0], t[1:]
        nid, payload = rest.split(":", 1)
        if kind == "E":
            tag, attrs = payload.split(":", 1)
            payload = tag + ":" + ",".join(sorted(a for a in attrs.split(",") if a))
        out.append((kind, int(nid), payload))
    return out


def observation(dumps):
    """list of per-step (structure, identity pattern)"""
    res = []
    prev = None
    for d in dumps:
        nodes = parse_dump(d)
        struct = [(k, p) for k, _, p in nodes]
        if prev is None:
            ident = None
        else:
            pos = {nid: i for i, (k, nid, _) in enumerate(prev) if k != "e"}
            ident = [pos.get(nid, -1) for k, nid, _ in nodes if k != "e"]
        res.append((struct, ident))
        prev = nodes
    return res


def run_model(pid, cases, chunk=25):
    exprs = ["run_client_dump %s" % glist(["(%s, %s, %s)" % (viewgen.cq_state(st), viewgen.cq_view(v), glist([cq_op(o) for o in ops])) for st, v, ops in cases[i:i + chunk]])
             for i in range(0, len(cases), chunk)]
    outs = vlib.coq_eval(pid, PRE, exprs, per_file=max(1, (len(exprs) + 31) // 32))
    res = []
    for o in outs:
        res.extend(b.split("\n") for b in o.split("\n==\n"))
    return res


def compare(impl_dumps, model_dumps):
    """-> None if the observations agree, else a description of the first difference"""
    a, b = observation(impl_dumps), observation(model_dumps)
    if len(a) != len(b):
        return {"what": "number of steps", "impl": len(a), "model": len(b)}
    for k, ((sa, ia), (sb, ib)) in enumerate(zip(a, b)):
        if sa != sb:
            return {"what": "structure differs", "step": k, "impl": str(sa)[:500], "model": str(sb)[:500]}
        if ia != ib:
            return {"what": "identity pattern differs (which nodes survived the write)", "step": k, "impl": str(ia)[:400], "model": str(ib)[:400]}
    return None
