"""Scenario language of harness/futures-driver and coq/theories/Async/Suspense.v: python AST, renderers, runner."""
import os

import vlib
from vlib import glist

FX = "false" if os.environ.get("VERIF_ASYNC_PINNED") else "true"
PRE = "From Coq Require Import List String.\nFrom Syc Require Import Async.Suspense.\nImport ListNotations.\n"

# node = ("sus", id, [nodes]) | ("scope", id, [nodes]) | ("task", t, n) | ("spawn", t, n) | ("res", t, n)
# ("res", t, n): a Resource read while loading under the boundary; in the LTS it is a task (same counter, same cancellation)
# step = ("go", t) | ("dispose", id)


def sx_nodes(ns):
    return "(" + " ".join(sx_node(n) for n in ns) + ")"


def sx_node(n):
    if n[0] == "flip":
        return "(flip %d)" % n[1]
    if n[0] == "wait":
        return "(wait %d %d)" % (n[1], n[2])
    if n[0] in ("sus", "scope"):
        return "(%s %d %s)" % (n[0], n[1], " ".join(sx_node(c) for c in n[2]))
    return "(%s %d %d)" % n


def sx_steps(ss):
    return "(" + " ".join("(%s %d)" % s for s in ss) + ")"


def cq_nodes(ns):
    return glist([cq_node(n) for n in ns])


def cq_node(n):
    if n[0] == "sus":
        return "ASus %d %s" % (n[1], cq_nodes(n[2]))
    if n[0] == "scope":
        return "AScope %d %s" % (n[1], cq_nodes(n[2]))
    return "%s %d %d" % ("ASpawn" if n[0] == "spawn" else "ATask", n[1], n[2])


def cq_steps(ss):
    return glist([("Go %d" if s[0] == "go" else "DisposeS %d") % s[1] for s in ss])


def run_impl(binp, cases):
    text = "\n".join("(%s %s)" % (sx_nodes(p), sx_steps(s)) for p, s in cases) + "\n"
    rc, so, se = vlib.run_driver(binp, text, timeout=3000)
    blocks = so.rstrip("\n").split("\n==\n")
    if rc != 0 or len(blocks) != len(cases):
        raise RuntimeError("futures-driver rc=%d blocks=%d/%d %s" % (rc, len(blocks), len(cases), se[-1500:]))
    res = []
    AGAIN.clear()
    GLOB.clear()
    for b in blocks:
        ls = b.split("\n")
        AGAIN.append([l[len("again "):].rsplit(" ; glob ", 1)[0] for l in ls if l.startswith("again ")])
        main = [l for l in ls if not l.startswith("again ")]
        # the global report (use_is_loading_global) is judged by the oracle only: the LTS prints no such field
        GLOB.append([l.rsplit(" ; glob ", 1)[1] if " ; glob " in l else None for l in main])
        res.append([l.rsplit(" ; glob ", 1)[0] for l in main])
    return res


# per scenario of the last run_impl: what the same tree showed when it was built again in the re-used root right after the final
# root disposal (before the executor dropped the cancelled tasks); must equal the scenario's first line
AGAIN = []
GLOB = []


def run_model(pid, cases, chunk=40):
    exprs = ["run_all %s %s" % (FX, glist(["(%s, %s)" % (cq_nodes(p), cq_steps(s)) for p, s in cases[i:i + chunk]]))
             for i in range(0, len(cases), chunk)]
    outs = vlib.coq_eval(pid, PRE, exprs, per_file=max(1, (len(exprs) + 31) // 32))
    res = []
    for o in outs:
        res.extend(b.split("\n") for b in o.split("\n==\n"))
    return res


def info(prog):
    """static facts: task -> (gates, owner chain of scope ids, boundary id or None, guarded); boundary -> enclosing boundary"""
    tasks, sus_parent, scope_parent = {}, {}, {}

    def walk(ns, owners, sus):
        for n in ns:
            if n[0] == "sus":
                sus_parent[n[1]] = sus
                scope_parent[n[1]] = owners[-1] if owners else None
                walk(n[2], owners + [n[1]], n[1])
            elif n[0] == "scope":
                scope_parent[n[1]] = owners[-1] if owners else None
                walk(n[2], owners + [n[1]], sus)
            else:
                tasks[n[1]] = (n[2], list(owners), sus if n[0] in ("task", "res") else None)

    walk(prog, [], None)
    return tasks, sus_parent, scope_parent


def parse_line(l):
    """'log a b ; load 1=1 2=0/dead' -> (events, {id: (outer, inner)})"""
    if l.startswith("end"):
        return l[4:].split(), {}
    if " ; glob " in l:
        l = l.rsplit(" ; glob ", 1)[0]
    lg, ld = l.split(" ; load")
    loads = {}
    for p in ld.split():
        k, v = p.split("=")
        o, i = (v.split("/") + [None])[:2]
        loads[int(k)] = (o, i if i is not None else o)
    return lg[4:].split(), loads
