"""C15 -- a resource holds the result of the latest fetch only (DESIGN.md 5.C15)."""
import itertools
import random

import vlib
from vlib import glist

PID = "C15"
THEOREMS = ["C15_self_write_is_plain", "C15_loading_iff_latest_outstanding", "C15_stale_completion_ignored", "C15_latest_completion_wins",
            "C15_old_value_readable", "C15_value_is_some_fetch", "C15_feedback_is_plain"]


def gen(tier, rng):
    """1-4 dependency writes x all orders in which the started fetches complete, including never and twice"""
    cases = []
    nmax = 3 if tier == "quick" else 4
    for nw in range(0, nmax + 1):
        writes = [("write", 10 + i) for i in range(nw)]
        fetches = list(range(nw + 1))
        # interleave: choose a subset of fetches to complete, an order, and positions between the writes
        for r in range(0, len(fetches) + 1):
            for comp in itertools.permutations(fetches, r):
                # place each completion after some number of writes (>= the write that started it)
                slots = [range(k, nw + 1) for k in comp]
                for pos in itertools.product(*slots):
                    steps = []
                    for w in range(nw + 1):
                        for k, p in zip(comp, pos):
                            if p == w:
                                steps.append(("complete", k))
                        if w < nw:
                            steps.append(writes[w])
                    cases.append(steps)
    # random long histories incl. repeated completions of the same fetch
    for _ in range(200 if tier == "quick" else 3000):
        steps, started = [], 1
        for _ in range(rng.randint(3, 12)):
            if rng.random() < 0.45:
                steps.append(("write", rng.randint(1, 50)))
                started += 1
            else:
                steps.append(("complete", rng.randrange(started + 1)))
        cases.append(steps)
    uniq = []
    seen = set()
    for c in cases:
        k = tuple(c)
        if k not in seen:
            seen.add(k)
            uniq.append(c)
    return uniq


def oracle(steps, lines, fb=False):
    """the three statements of the property evaluated on the observed sequence; with [fb] the program under test has an effect
    that, behind a selector, moves the dependency on to value + 1 whenever the installed value ends in 7 (a dependency change
    like any other, issued right after the completion)"""
    fails = []
    deps = [0]
    done = set()
    expected_value = None
    for i, st in enumerate(steps):
        val, load, started = [p.split("=")[1] for p in lines[i + 1].split()]
        prev_val = lines[i].split()[0].split("=")[1]
        if st[0] == "write":
            deps.append(st[1])
            if val != prev_val:
                fails.append({"step": i, "what": "previous value not readable while the refetch is outstanding", "before": prev_val, "after": val})
            if load != "1":
                fails.append({"step": i, "what": "is_loading false although the latest fetch is outstanding"})
        else:
            k = st[1]
            latest = len(deps) - 1
            if k == latest and k not in done:
                done.add(k)
                expected_value = deps[k]
                if fb == "self" and deps[k] % 10 == 7:
                    # the fetch itself moved the dependency on before returning: it was superseded before it could deliver
                    deps.append(deps[k] + 1)
                    if val != prev_val or load != "1":
                        fails.append({"step": i, "what": "a fetch that was superseded (by its own dependency write, in its last poll) delivered its result, or is_loading is "
                                                         "false although the fetch for the latest dependency value is outstanding", "value": val, "before": prev_val, "loading": load})
                    latest = len(deps) - 1
                    if started != str(len(deps)):
                        fails.append({"step": i, "what": "number of fetches started differs from the number of dependency values", "started": started, "expected": len(deps)})
                    continue
                moved_on = fb is True and deps[k] % 10 == 7 and prev_val != str(deps[k])
                if moved_on:
                    deps.append(deps[k] + 1)          # the feedback effect wrote the dependency: a new fetch is outstanding
                if val != str(deps[k]) or load != ("1" if moved_on else "0"):
                    fails.append({"step": i, "what": "completion of the latest fetch not installed" if not moved_on else
                                  "after the completion moved the dependency on, the value is not the completed one or is_loading is false although the new fetch is outstanding",
                                  "value": val, "loading": load, "expected": deps[k]})
            else:
                if val != prev_val:
                    fails.append({"step": i, "what": "an older in-flight fetch overwrote the value", "before": prev_val, "after": val, "fetch": k, "latest": latest})
                if fb == "self" and k < len(deps) and k not in done and deps[k] % 10 == 7 and started == str(len(deps) + 1):
                    # the superseded fetch was not cancelled and ran to its end: its dependency write is a dependency change like any
                    # other (whether superseded fetches are cancelled is not what this property is about; the model says they are)
                    done.add(k)
                    deps.append(deps[k] + 1)
        latest = len(deps) - 1
        if (load == "1") != (latest not in done):
            fails.append({"step": i, "what": "is_loading is not 'the latest fetch is outstanding'", "loading": load})
        if started != str(len(deps)):
            fails.append({"step": i, "what": "number of fetches started differs from the number of dependency values", "started": started, "expected": len(deps)})
    return fails


def oracle_latest(steps, lines, variant):
    """the property's letter on histories in which a helper effect writes a dependency of the resource inside the propagation of a
    dependency write (`clamp`: the dependency is clamped to 50; `reset`: dependencies (q, p), a write to q resets p to 0). How many
    fetches such a write starts is the implementation's business (it depends on the order in which the two effects run); what the
    property fixes is read off the observed list of started fetches: the LAST fetch started was started for the latest dependency
    values, the value is its result once it has completed and the previous value until then, is_loading <=> it is outstanding"""
    fails = []
    q, pg, d = 0, 0, 0
    done = set()
    for i, st in enumerate(steps):
        f = dict(p.split("=") for p in lines[i + 1].split())
        prev_val = lines[i].split()[0].split("=")[1]
        fetches = [int(x) for x in f["fetches"].split(",")]
        prev_n = len(lines[i].split()[3].split("=")[1].split(","))
        if st[0] == "write":
            v = st[1]
            if variant == "clamp":
                d = min(v, 50)
            elif v % 2 == 1:
                pg = v
            else:
                q, pg = v, 0
        elif st[1] < prev_n:
            done.add(st[1])
        cur = d if variant == "clamp" else q * 1000 + pg
        latest = len(fetches) - 1
        if fetches[-1] != cur:
            fails.append({"step": i, "what": "no fetch was started for the latest dependency values", "latest dependency values": cur, "fetches started for": fetches})
            continue
        if (f["loading"] == "1") != (latest not in done):
            fails.append({"step": i, "what": "is_loading is not 'the latest fetch is outstanding'", "loading": f["loading"], "fetches": fetches, "completed": sorted(done)})
        want = str(fetches[latest]) if latest in done else prev_val
        if f["value"] != want:
            fails.append({"step": i, "what": "the value is not the result of the latest fetch" if latest in done else "previous value not readable while the latest fetch is outstanding / an older fetch overwrote it",
                          "value": f["value"], "expected": want, "fetches": fetches, "completed": sorted(done)})
    return fails


def gen_helper(tier, rng, vals):
    cases = []
    for n in range(1, 4):
        for ws in itertools.product(vals[:4], repeat=n):
            steps = [("write", w) for w in ws]
            for order in (range(0, 2 * n + 2), reversed(range(0, 2 * n + 2)), [2 * n, 2 * n - 1, n]):
                cases.append(steps + [("complete", k) for k in order])
            # completions between the writes
            cases.append([x for k, w in enumerate(ws) for x in (("write", w), ("complete", 2 * k + 1), ("complete", 2 * k + 2), ("complete", k + 1))])
    for _ in range(150 if tier == "quick" else 2000):
        steps, started = [], 1
        for _ in range(rng.randint(3, 12)):
            if rng.random() < 0.45:
                steps.append(("write", rng.choice(vals)))
                started += 2
            else:
                steps.append(("complete", rng.randrange(started + 1)))
        cases.append(steps)
    return cases


def gen_fb(tier, rng):
    """histories for the feedback variant: dependency values ending in 7 trigger a follow-up write when they are installed"""
    cases = []
    vals = [7, 17, 5, 27, 8]
    for n in range(1, 4 if tier == "quick" else 5):
        for ws in itertools.product(vals[:3], repeat=n):
            steps, started = [], 1
            for w in ws:
                steps.append(("write", w))
                started += 1
            # complete everything in start order, then in reverse, then the latest only (feedback fetches included: up to 2n+2 ids)
            for order in (range(0, 2 * n + 3), reversed(range(0, 2 * n + 3)), [n, n + 1, n + 2]):
                cases.append(steps + [("complete", k) for k in order])
    for _ in range(150 if tier == "quick" else 2000):
        steps, started = [], 1
        for _ in range(rng.randint(3, 12)):
            if rng.random() < 0.4:
                steps.append(("write", rng.choice(vals)))
                started += 2
            else:
                steps.append(("complete", rng.randrange(started + 1)))
        cases.append(steps)
    return cases


def main(argv):
    a, seed = vlib.args(argv)
    chk = vlib.Check(PID, a.tier, seed, "proof")
    rng = random.Random(seed * 5003 + 15)
    chk.trusted = ["Coq 8.16.1 kernel + vm_compute", "hand-written transition system coq/theories/Async/Resource.v tied to resource.rs by this correspondence run",
                   "harness/ssr-driver resource mode (fetches are oneshot channels completed by the schedule)", "tools/c15.py",
                   "modelled, not verified: tokio LocalSet, Abortable, the effect/cleanup machinery that aborts the previous fetch (covered by C04/C14)"]
    chk.rule = ("0-3 (quick) / 0-4 (thorough) dependency writes x every subset and order of completions of the started fetches placed at every admissible "
                "position (including never completing), plus random long histories with repeated and stale completions; non-trivial = a stale completion "
                "arrived after a newer fetch was started; distinct = distinct step list")
    ok, msg = vlib.proof_step(chk, "C15", ["theories/Props/C15.vo"], THEOREMS)
    broken = [] if ok else ["theorem: " + msg]
    okb, outb, binp = vlib.cargo_build("ssr-driver")
    chk.obligation("cargo build ssr-driver against /repo", okb, outb)
    if not okb:
        chk.violation({"property": PID, "broken": "harness build", "output": outb[-2000:]}, no_input=True)
        return chk.finish()
    cases = gen(a.tier, rng)
    text = "\n".join("(resource (%s))" % " ".join("(%s %d)" % s for s in c) for c in cases) + "\n"
    rc, so, se = vlib.run_driver(binp, text, timeout=3000)
    blocks = so.rstrip("\n").split("\n==\n")
    if rc != 0 or len(blocks) != len(cases):
        chk.violation({"property": PID, "broken": "driver run", "rc": rc, "stderr": se[-1500:]}, no_input=True)
        return chk.finish()
    impl = [b.split("\n") for b in blocks]
    endfail = [(c, b[-1]) for c, b in zip(cases, impl) if b[-1] != "end panics=0"]
    impl = [b[:-1] if b[-1].startswith("end ") else b for b in impl]
    model = None
    try:
        pre = "From Coq Require Import List ZArith String.\nFrom Syc Require Import Async.Resource.\nImport ListNotations.\n"
        exprs = ["run_resources %s" % glist([glist([("RWrite (%d)%%Z" if s[0] == "write" else "RComplete %d") % s[1] for s in c]) for c in cases[i:i + 200]])
                 for i in range(0, len(cases), 200)]
        outs = vlib.coq_eval(PID, pre, exprs, per_file=max(1, (len(exprs) + 15) // 16))
        model = [b.split("\n") for o in outs for b in o.split("\n==\n")]
    except RuntimeError as e:
        broken.append("model evaluation: " + str(e)[-500:])
        chk.obligation("model evaluation", False, str(e))
    # the same histories with a PAIR of dependencies on((d, d2), ..): even writes go to d, odd ones to d2
    ttext = "\n".join("(resource (%s) two)" % " ".join("(%s %d)" % s for s in c) for c in cases) + "\n"
    rc, so, se = vlib.run_driver(binp, ttext, timeout=3000)
    tblocks = so.rstrip("\n").split("\n==\n")
    tfail = []
    if rc != 0 or len(tblocks) != len(cases):
        tfail.append({"steps": ["two"], "failures": [{"what": "driver run (pair of dependencies)", "stderr": se[-800:]}]})
    else:
        for i, (c, b) in enumerate(zip(cases, tblocks)):
            ls = b.split("\n")
            if ls[0] == "PANIC" or ls[-1] != "end panics=0":
                tfail.append({"steps": ["two"] + c, "failures": [{"what": "panic", "line": ls[-1]}]})
                continue
            f = oracle(c, ls[:-1])
            if f:
                tfail.append({"steps": ["two (dependencies on((d, d2), ..); even writes to d, odd writes to d2)"] + c, "failures": f[:3], "output": ls[:-1]})
            elif model is not None and model[i] != ls[:-1]:
                broken.append("correspondence (pair of dependencies): " + str(c))
    chk.obligation("oracle and correspondence on the same %d histories with a pair of dependencies on((d, d2), ..), each write going to one of them" % len(cases),
                   not tfail and not any(b.startswith("correspondence (pair") for b in broken), str(tfail[:1]))
    # the feedback variant
    fcases = gen_fb(a.tier, rng)
    ftext = "\n".join("(resource (%s) fb)" % " ".join("(%s %d)" % s for s in c) for c in fcases) + "\n"
    rc, so, se = vlib.run_driver(binp, ftext, timeout=3000)
    fblocks = so.rstrip("\n").split("\n==\n")
    if rc != 0 or len(fblocks) != len(fcases):
        chk.violation({"property": PID, "broken": "driver run (feedback)", "rc": rc, "stderr": se[-1500:]}, no_input=True)
        return chk.finish()
    fimpl = [b.split("\n") for b in fblocks]
    endfail += [(["fb"] + c, b[-1]) for c, b in zip(fcases, fimpl) if b[-1] != "end panics=0"]
    fimpl = [b[:-1] if b[-1].startswith("end ") else b for b in fimpl]
    fmodel = None
    try:
        exprs = ["run_resources_fb %s" % glist([glist([("RWrite (%d)%%Z" if s[0] == "write" else "RComplete %d") % s[1] for s in c]) for c in fcases[i:i + 200]])
                 for i in range(0, len(fcases), 200)]
        outs = vlib.coq_eval(PID + "f", pre, exprs, per_file=max(1, (len(exprs) + 15) // 16))
        fmodel = [b.split("\n") for o in outs for b in o.split("\n==\n")]
    except (RuntimeError, NameError) as e:
        broken.append("model evaluation (feedback): " + str(e)[-500:])
        chk.obligation("model evaluation (feedback)", False, str(e))
    # the self-writing fetch: the fetch future moves the dependency on before it returns
    sfail = []
    stext = "\n".join("(resource (%s) self)" % " ".join("(%s %d)" % s for s in c) for c in fcases) + "\n"
    rc, so, se = vlib.run_driver(binp, stext, timeout=3000)
    sblocks = so.rstrip("\n").split("\n==\n")
    smodel = None
    try:
        exprs = ["run_resources_self %s" % glist([glist([("RWrite (%d)%%Z" if s[0] == "write" else "RComplete %d") % s[1] for s in c]) for c in fcases[i:i + 200]])
                 for i in range(0, len(fcases), 200)]
        outs = vlib.coq_eval(PID + "w", pre, exprs, per_file=max(1, (len(exprs) + 15) // 16))
        smodel = [b.split("\n") for o in outs for b in o.split("\n==\n")]
    except (RuntimeError, NameError) as e:
        broken.append("model evaluation (self-writing fetch): " + str(e)[-500:])
    smis = []
    if rc != 0 or len(sblocks) != len(fcases):
        sfail.append({"steps": ["self"], "failures": [{"what": "driver run (self-writing fetch)", "stderr": se[-800:]}]})
    else:
        for i, (c, b) in enumerate(zip(fcases, sblocks)):
            ls = b.split("\n")
            if ls[0] == "PANIC" or ls[-1] != "end panics=0":
                sfail.append({"steps": ["self"] + c, "failures": [{"what": "panic", "line": ls[-1]}]})
                continue
            f = oracle(c, ls[:-1], fb="self")
            if f:
                sfail.append({"steps": ["self (the fetch future writes dependency := value + 1 before returning a value that ends in 7)"] + c, "failures": f[:3], "output": ls[:-1]})
            if smodel is not None and smodel[i] != ls[:-1]:
                smis.append({"steps": ["self"] + c, "impl": ls[:-1], "model": smodel[i]})
    chk.obligation("correspondence and oracle on %d histories in which the fetch itself moves the dependency on in its last poll (superseded before it can deliver)" % len(fcases),
                   smodel is not None and not smis and not sfail, str((sfail + smis)[:1]))
    # a helper effect writes a dependency inside the propagation of a dependency write (oracle only)
    hfail = []
    nh = 0
    HELPER_RUNS = []
    for variant, vals in (("clamp", [60, 7, 99, 50, 30]), ("reset", [2, 5, 4, 7, 6, 3])):
        hcases = gen_helper(a.tier, rng, vals)
        nh += len(hcases)
        htext = "\n".join("(resource (%s) %s)" % (" ".join("(%s %d)" % st for st in c), variant) for c in hcases) + "\n"
        rc, so, se = vlib.run_driver(binp, htext, timeout=3000)
        hblocks = so.rstrip("\n").split("\n==\n")
        if rc != 0 or len(hblocks) != len(hcases):
            hfail.append({"steps": [variant], "failures": [{"what": "driver run (%s)" % variant, "stderr": se[-800:]}]})
            continue
        for c, b in zip(hcases, hblocks):
            ls = b.split("\n")
            chk.note_case(variant + str(c), True)
            if ls[0] == "PANIC" or ls[-1] != "end panics=0":
                hfail.append({"steps": [variant] + c, "failures": [{"what": "panic", "line": ls[-1]}]})
                continue
            HELPER_RUNS.append((variant, c, ls[:-1]))
            f = oracle_latest(c, ls[:-1], variant)
            if f:
                hfail.append({"steps": [variant + (" (a helper effect created before the resource clamps the dependency to 50)" if variant == "clamp" else
                                                   " (dependencies (q, p): even writes go to q and a helper effect on(q) then resets p to 0, odd writes go to p; fetch value q * 1000 + p)")] + c,
                              "failures": f[:3], "output": ls[:-1]})
    # ... and the transition system fed with the writes the resource's effect actually saw (one RWrite per fetch started, in order):
    # value / loading / number of fetches must agree at every step
    hmis = []
    try:
        hist, marks = [], []
        for variant, c, ls in HELPER_RUNS:
            # (the helper effect of `reset` writes the page once when it is created: a second fetch before the first observation)
            f0 = [int(x) for x in dict(p.split("=") for p in ls[0].split())["fetches"].split(",")]
            ev = [("write", v) for v in f0[1:]]
            mk, prev = [len(ev)], len(f0)
            for st, l in zip(c, ls[1:]):
                f = [int(x) for x in dict(p.split("=") for p in l.split())["fetches"].split(",")]
                ev += [("write", v) for v in f[prev:]]
                prev = len(f)
                if st[0] == "complete":
                    ev.append(st)
                mk.append(len(ev))
            hist.append(ev)
            marks.append(mk)
        exprs = ["run_resources %s" % glist([glist([("RWrite (%d)%%Z" if e[0] == "write" else "RComplete %d") % e[1] for e in h]) for h in hist[i:i + 200]])
                 for i in range(0, len(hist), 200)]
        outs = vlib.coq_eval(PID + "h", pre, exprs, per_file=max(1, (len(exprs) + 15) // 16))
        hmodel = [b.split("\n") for o in outs for b in o.split("\n==\n")]
        for (variant, c, ls), mk, ml in zip(HELPER_RUNS, marks, hmodel):
            want = [ml[k] for k in mk]
            got = [" ".join(p for p in l.split() if not p.startswith("fetches=")) for l in ls]
            if want != got:
                hmis.append({"steps": [variant] + c, "impl": got, "model": want})
    except (RuntimeError, NameError, IndexError, KeyError) as e:
        broken.append("model evaluation (helper effect): " + str(e)[-500:])
    chk.obligation("correspondence: the transition system fed with one write per fetch the implementation started agrees with it at every step of the clamp and reset histories",
                   not hmis and not any(b.startswith("model evaluation (helper") for b in broken), str(hmis[:1]))
    if hmis:
        broken.append("correspondence (helper effect) differs on %d histories" % len(hmis))
    chk.obligation("oracle on %d histories in which a helper effect writes a dependency of the resource inside the propagation of a dependency write (clamp, reset)" % nh,
                   not hfail, str(hfail[:1]))
    mism, orfail = [], list(tfail) + sfail + hfail
    chk.obligation("oracle: disposing the scope with fetches pending never panics, neither at disposal nor when the executor drops the cancelled tasks (%d histories)" % (len(cases) + len(fcases)),
                   not endfail, str(endfail[:1]))
    for c, l in endfail[:3]:
        orfail.append({"steps": c, "failures": [{"what": "panic at / after disposal of a scope with pending fetches", "line": l}]})
    for i, (steps, lines) in enumerate(zip(fcases, fimpl)):
        chk.note_case("fb" + str(steps), any(st[0] == "write" and st[1] % 10 == 7 for st in steps))
        if lines[0] == "PANIC":
            orfail.append({"steps": ["fb"] + steps, "failures": [{"what": "panic"}]})
            continue
        fails = oracle(steps, lines, fb=True)
        if fails:
            orfail.append({"steps": ["fb"] + steps, "failures": fails[:3], "output": lines})
        if fmodel is not None and fmodel[i] != lines:
            mism.append({"steps": ["fb"] + steps, "impl": lines, "model": fmodel[i]})
    chk.obligation("correspondence and oracle on %d histories with a feedback edge from the value to the dependency" % len(fcases),
                   fmodel is not None and not mism and not orfail, str((mism + orfail)[:1]))
    for i, (steps, lines) in enumerate(zip(cases, impl)):
        key = str(steps)
        stale = False
        nw = 0
        for s in steps:
            if s[0] == "write":
                nw += 1
            elif s[1] < nw:
                stale = True
        chk.note_case(key, stale)
        if lines == ["PANIC"]:
            orfail.append({"steps": steps, "what": "panic"})
            continue
        f = oracle(steps, lines)
        if f:
            orfail.append({"steps": steps, "failures": f[:3], "output": lines})
        if model is not None and model[i] != lines:
            mism.append({"steps": steps, "impl": lines, "model": model[i]})
    chk.traces = len(cases) if model is not None else 0
    chk.exhaustive = True
    chk.obligation("correspondence: transition system = implementation on %d histories" % len(cases), model is not None and not mism, str(mism[:1]))
    chk.obligation("oracle: latest wins, old value readable, loading <=> latest outstanding", not orfail, str(orfail[:1]))
    for i in (0, len(cases) // 2, len(cases) - 1):
        chk.sample({"steps": cases[i], "output": impl[i]})
    if orfail:
        orfail.sort(key=lambda o: len(str(o["steps"])))
        chk.violation({"property": PID, "kind": "oracle failure on implementation output", "input": orfail[0], "count": len(orfail), "also_broken": broken})
    elif mism or smis or broken:
        chk.violation({"property": PID, "kind": "proof/correspondence broken, oracle clean on all inputs explored", "broken": broken,
                       "mismatches": (mism + smis)[:3], "mismatch_count": len(mism) + len(smis)}, no_input=True)
    return chk.finish()
