"""Build helpers for the DOM workspace (harness/dom): regenerates the crate root from /repo, builds dom-driver."""
import os

import domgen
import vlib

DOMWS = os.path.join(vlib.HARNESS, "dom")


def build(chk):
    try:
        domgen.write()
        chk.obligation("generate dom-driver crate root from /repo's sycamore-web/src/lib.rs", True)
    except domgen.GenError as e:
        chk.obligation("generate dom-driver crate root from /repo's sycamore-web/src/lib.rs", False, str(e))
        return None
    okb, out, binp = vlib.cargo_build("dom-driver", workspace=DOMWS)
    chk.obligation("cargo build dom-driver (client back end of /repo compiled natively against the DOM shims)", okb, out)
    return binp if okb else None


def run(binp, lines, timeout=3000):
    rc, so, se = vlib.run_driver(binp, "\n".join(lines) + "\n", timeout=timeout)
    blocks = so.rstrip("\n").split("\n==\n")
    if rc != 0 or len(blocks) != len(lines):
        raise RuntimeError("dom-driver rc=%d blocks=%d/%d %s" % (rc, len(blocks), len(lines), se[-1500:]))
    return [b.split("\n") for b in blocks]
