"""C12 -- server renders are deterministic, key-disciplined and isolated (DESIGN.md 5.C12)."""
import random
import re

import viewgen
import vlib
from vlib import glist
import c08
import susrender

PID = "C12"
THEOREMS = ["C12_keys_in_creation_order", "C12_keys_unique", "C12_reinit_fresh"]


def gen(tier, rng):
    """sequences of 2-5 sync renders on one thread; views recur so that 'same view, different history' is exercised"""
    seqs = []
    for _ in range(400 if tier == "quick" else 4000):
        pool = [viewgen.random_view(rng, rng.choice([2, 3, 4])) for _ in range(rng.randint(1, 3))]
        seqs.append([rng.choice(pool) for _ in range(rng.randint(2, 5))])
    return seqs


def main(argv):
    a, seed = vlib.args(argv)
    chk = vlib.Check(PID, a.tier, seed, "proof")
    rng = random.Random(seed * 4099 + 12)
    chk.trusted = ["Coq 8.16.1 kernel + vm_compute", "hand-written models coq/theories/Ssr/View.v (build/render) and Reactive/Interp.v (reinit), tied to the code by correspondence runs",
                   "harness/ssr-driver + common/viewspec.rs", "verif hook node_count", "tools/viewgen.py, tools/c12.py"]
    chk.assumptions = ["blocking and streaming renders are covered by C13's check (determinism for a fixed completion order); here: sync renders"]
    chk.rule = ("sequences of 2-5 sync renders of random views drawn from a small pool (so the same view recurs after different histories) on one thread; "
                "non-trivial = a sequence in which the same (state, view) occurs at two positions after different predecessors; distinct = distinct sequence")
    ok, msg = vlib.proof_step(chk, "C12", ["theories/Props/C12.vo", "theories/Ssr/Show.vo"], THEOREMS)
    broken = [] if ok else ["theorem: " + msg]
    okb, outb, binp = vlib.cargo_build("ssr-driver")
    chk.obligation("cargo build ssr-driver against /repo", okb, outb)
    if not okb:
        chk.violation({"property": PID, "broken": "harness build", "output": outb[-2000:]}, no_input=True)
        return chk.finish()
    seqs = gen(a.tier, rng)
    text = "\n".join("(seq %s)" % " ".join("(sync %s %s)" % (viewgen.sx_state(st), viewgen.sx_view(v)) for st, v in s) for s in seqs) + "\n"
    rc, so, se = vlib.run_driver(binp, text)
    blocks = so.rstrip("\n").split("\n==\n")
    if rc != 0 or len(blocks) != len(seqs):
        chk.violation({"property": PID, "broken": "driver run", "rc": rc, "stderr": se[-1500:]}, no_input=True)
        return chk.finish()
    orfail, mism = [], []
    flat = []
    for s, b in zip(seqs, blocks):
        lines = b.split("\n")
        seen = {}
        counts = set()
        key = " ".join(viewgen.sx_state(st) + viewgen.sx_view(v) for st, v in s)
        nontriv = False
        for (st, v), line in zip(s, lines):
            if line == "PANIC":
                orfail.append({"what": "render panicked", "sequence": key})
                break
            hexout, n, sc = line.split(" ")
            counts.add(n)
            if sc != "sc=0,1":
                orfail.append({"what": "the stable counter did not restart for this render", "view": viewgen.sx_view(v), "values": sc, "sequence": key})
            k = viewgen.sx_state(st) + viewgen.sx_view(v)
            if k in seen:
                nontriv = True
                if seen[k] != hexout:
                    orfail.append({"what": "same view rendered differently after a different history", "view": viewgen.sx_view(v),
                                   "first": bytes.fromhex(seen[k]).decode("utf8", "replace"), "later": bytes.fromhex(hexout).decode("utf8", "replace")})
            seen[k] = hexout
            out = bytes.fromhex(hexout).decode("utf8", "replace")
            hks = [tuple(int(x) for x in m.split(".")) for m in re.findall(r' data-hk="(\d+\.\d+)"', out)]
            if len(set(hks)) != len(hks):
                orfail.append({"what": "hydration keys not unique", "view": viewgen.sx_view(v), "keys": hks})
            exp_keys = viewgen.expected_keys(v, st)
            if [e for _, e in hks] != exp_keys:
                orfail.append({"what": "hydration keys are not the dense creation-order numbering", "view": viewgen.sx_view(v),
                               "state": viewgen.sx_state(st), "keys_in_output": [e for _, e in hks], "expected": exp_keys})
            if hks != sorted(hks) or any(s0 != 0 for s0, _ in hks):
                orfail.append({"what": "hydration keys not in element-creation order", "view": viewgen.sx_view(v), "keys": hks})
            flat.append((st, v, hexout))
        if len(counts) > 1:
            orfail.append({"what": "live node count at the start of a render is not constant", "counts": sorted(counts), "sequence": key})
        chk.note_case(key, nontriv)
    chk.obligation("oracle: determinism, key discipline, restarted stable counter, constant node count over %d sequences" % len(seqs), not orfail, str(orfail[:2]))
    try:
        per = 150
        exprs = ["run_render %s" % glist(["(%s, %s)" % (viewgen.cq_state(st), viewgen.cq_view(v)) for st, v, _ in flat[i:i + per]])
                 for i in range(0, len(flat), per)]
        outs = vlib.coq_eval(PID, c08.PRE, exprs, per_file=max(1, (len(exprs) + 31) // 32))
        model = [l for o in outs for l in o.split("\n")]
        for (st, v, h), m in zip(flat, model):
            if h != m:
                mism.append({"view": viewgen.sx_view(v), "state": viewgen.sx_state(st), "impl": bytes.fromhex(h).decode("utf8", "replace"),
                             "model": bytes.fromhex(m).decode("utf8", "replace")})
        chk.traces = len(flat)
        chk.obligation("correspondence: model bytes = real bytes on %d renders (whatever was rendered before)" % len(flat), not mism, str(mism[:2]))
    except RuntimeError as e:
        broken.append("model evaluation: " + str(e)[-500:])
        chk.obligation("model evaluation", False, str(e))
    # ---- part 2: sequences mixing sync, blocking and streaming renders on one thread ----
    shapes = susrender.shapes()
    mixed = []
    for _ in range(150 if a.tier == "quick" else 1500):
        pool = []
        for _ in range(rng.randint(1, 2)):
            st, v = viewgen.random_view(rng, 2)
            pool.append(("sync", viewgen.sx_state(st), viewgen.sx_view(v)))
        for _ in range(rng.randint(1, 3)):
            vs = rng.choice(shapes)
            av = susrender.real_view(vs)
            gs = sorted(set(g for x in vs for g in susrender.gates(x)))
            sched = rng.sample(gs, len(gs))
            if rng.random() < 0.3 and sched:
                sched = sched[:-1]                    # a render left with pending tasks
            pool.append(("sus", rng.choice(["sync", "blocking", "streaming"]), susrender.sx(av), "(%s)" % " ".join(map(str, sched))))
        mixed.append([rng.choice(pool) for _ in range(rng.randint(3, 6))])
    # every view family in every mode at least once, each rendered twice with another render in between
    for vs in shapes:
        av = susrender.real_view(vs)
        gs = sorted(set(g for x in vs for g in susrender.gates(x)))
        for mode in ("sync", "blocking", "streaming"):
            e = ("sus", mode, susrender.sx(av), "(%s)" % " ".join(map(str, gs)))
            ovs = rng.choice(shapes)
            ogs = sorted(set(g for x in ovs for g in susrender.gates(x)))
            # in between: a streaming render drained to the end, a blocking render, a streaming and a blocking render abandoned with pending tasks
            for omode, osched in (("streaming", ogs), ("blocking", ogs), ("streaming", []), ("blocking", [])):
                other = ("sus", omode, susrender.sx(susrender.real_view(ovs)), "(%s)" % " ".join(map(str, osched)))
                mixed.append([e, other, e])
        # ... and between two sync renders of an ordinary view with elements
        st0, v0 = viewgen.random_view(rng, 3, {"show": 0, "list": 0, "nossr": 0.5, "nohydrate": 0.5})   # (a hidden Show consumes keys without emitting them)
        e0 = ("sync", viewgen.sx_state(st0), viewgen.sx_view(v0))
        mixed.append([e0, ("sus", "streaming", susrender.sx(av), "(%s)" % " ".join(map(str, gs))), e0, ("sus", "blocking", susrender.sx(av), "(%s)" % " ".join(map(str, gs))), e0])
    # dynamic views that take a stable counter value when they are built (ids for label / input pairs): the counter is bookkeeping, the
    # views must be built once, ids and hydration keys in creation order
    for nd in (1, 2, 3, 5):
        c = ("counters", str(nd))
        mixed.append([c, ("counters", "2"), c])
        mixed.append([c, ("sus", "streaming", susrender.sx(susrender.real_view(shapes[0])), "(1)"), c])
    text = "\n".join("(seq %s)" % " ".join("(%s)" % " ".join(e) for e in s) for s in mixed) + "\n"
    rc, so, se = vlib.run_driver(binp, text)
    mblocks = so.rstrip("\n").split("\n==\n")
    if rc != 0 or len(mblocks) != len(mixed):
        chk.violation({"property": PID, "broken": "driver run (mixed modes)", "rc": rc, "stderr": se[-1500:]}, no_input=True)
        return chk.finish()
    mfail = []
    for s, b in zip(mixed, mblocks):
        lines = b.split("\n")
        seen, counts = {}, {}
        key = " ".join("(%s)" % " ".join(e) for e in s)
        nontriv = False
        for e, line in zip(s, lines):
            if line == "PANIC":
                mfail.append({"what": "render panicked", "sequence": key})
                break
            after = None
            if " after=" in line:
                line, after = line.rsplit(" after=", 1)
            body, n, sc = line.rsplit(" ", 2)
            # a finished render releases every reactive node it created: once the render has returned / the stream has ended no more
            # nodes are alive in its root than when the render started
            # (an idle root holds exactly its root scope)
            if after not in (None, "-") and int(after) > 1:
                mfail.append({"what": "a finished render did not release the reactive nodes it created", "render": " ".join(e),
                              "live_at_start": int(n.split("=")[1]), "live_after_finish": int(after)})
            mode = e[0] if e[0] == "sync" else e[1]
            if sc != "sc=0,1":
                mfail.append({"what": "the stable counter did not restart for this render", "render": " ".join(e), "values": sc, "sequence": key})
            counts.setdefault("streaming" if mode == "streaming" else "scoped", set()).add(n)
            if e in seen:
                nontriv = True
                if seen[e] != body:
                    mfail.append({"what": "same view and completion order rendered differently after a different history", "render": " ".join(e),
                                  "first": seen[e][:400], "later": body[:400], "sequence": key})
            seen[e] = body
            # hydration keys: unique over everything one render emits, dense per suspense scope
            hexes = re.findall(r"[0-9a-f]{8,}", body)
            out = "".join(bytes.fromhex(h).decode("utf8", "replace") for h in hexes if len(h) % 2 == 0)
            hks = [tuple(int(x) for x in m.split(".")) for m in re.findall(r' data-hk="(\d+\.\d+)"', out)]
            if len(set(hks)) != len(hks):
                mfail.append({"what": "hydration keys not unique within one render", "render": " ".join(e), "keys": hks})
            if e[0] == "counters":
                ids = [int(x) for x in re.findall(r' id="l(\d+)"', out)]
                if ids != list(range(2, 2 + int(e[1]))):
                    mfail.append({"what": "stable counter values taken by dynamic views are not 2, 3, ... in creation order (a view was built more than once)",
                                  "render": " ".join(e), "ids": ids, "output": out[:300]})
            sks = re.findall(r'<suspense-start data-key="(\d+)"', out)
            if len(set(sks)) != len(sks):
                mfail.append({"what": "suspense keys not unique within one render", "render": " ".join(e), "keys": sks})
            for sc in set(k[0] for k in hks):
                els = sorted(k[1] for k in hks if k[0] == sc)
                if els != list(range(len(els))):
                    mfail.append({"what": "hydration keys of a suspense scope are not dense from 0", "render": " ".join(e), "scope": sc, "keys": els})
        for kind, c in counts.items():
            if len(c) > 1:
                mfail.append({"what": "live node count at the start of a render is not constant (%s renders)" % kind, "counts": sorted(c), "sequence": key})
        chk.note_case("M" + key, nontriv)
    chk.obligation("oracle: determinism, key discipline and constant node count over %d sequences mixing sync / blocking / streaming renders" % len(mixed),
                   not mfail, str(mfail[:2]))
    orfail += mfail
    chk.sample({"sequence_length": len(seqs[0]), "first_output": bytes.fromhex(blocks[0].split("\n")[0].split(" ")[0]).decode("utf8", "replace")[:300]})
    if orfail:
        orfail.sort(key=lambda o: len(str(o)))
        chk.violation({"property": PID, "kind": "oracle failure on implementation output", "input": orfail[0], "count": len(orfail), "also_broken": broken})
    elif mism or broken:
        chk.violation({"property": PID, "kind": "proof/correspondence broken, oracle clean on all inputs explored", "broken": broken,
                       "mismatches": mism[:3]}, no_input=True)
    return chk.finish()
