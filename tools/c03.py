"""C03 -- subscriptions equal the tracked reads of the latest run (DESIGN.md 5.C03)."""
import itertools

import rcheck
import reactive_gen

PID = "C03"
FEATS = {"untracked": 0.35, "selector": 1, "effect": 1.5, "nested": 0.3, "scope": 0.5, "cleanup": 0.4, "dispose": 0.15,
         "batch": 0.5, "on": 0.35, "untrack_block": 1.5, "track": 1, "log": 0.5, "late_create": 0.5}


def read_forms(rng):
    """each read form x tracked / untracked target, then every signal is written once more"""
    out = []
    forms = ["get", "getu", "untrack", "component", "on_dep", "on_body", "cleanup", "track", "scope", "dup", "fresh"]
    for kind in ("memo", "effect", "selector"):
        for fa, fb in itertools.product(forms, repeat=2):
            prog = [("signal", 1, ("lit", 1)), ("signal", 2, ("lit", 2)), ("signal", 3, ("lit", 0))]
            ss = []
            ret = ("lit", 0)
            on = None
            for sig, f in ((1, fa), (2, fb)):
                if f == "get":
                    ret = ("add", ret, ("get", sig))
                elif f == "getu":
                    ret = ("add", ret, ("getu", sig))
                elif f == "untrack":
                    ss.append(("untrack", [("log", ("get", sig))]))
                elif f == "component":
                    ss.append(("component", [("log", ("get", sig))]))
                elif f == "on_dep":
                    on = (on or []) + [sig]
                elif f == "on_body":
                    on = on or [3]
                    ret = ("add", ret, ("get", sig))
                elif f == "cleanup":
                    ss.append(("oncleanup", sig, [("log", ("get", sig))]))
                elif f == "track":
                    ss.append(("track", sig))
                elif f == "scope":
                    ss.append(("scope", 10 + sig, [("log", ("get", sig))]))
                elif f == "dup":
                    ret = ("add", ret, ("add", ("get", sig), ("get", sig)))
                elif f == "fresh":
                    ss.append(("signal", 20 + sig, ("get", sig)))
                    ret = ("add", ret, ("get", 20 + sig))
            body = ("body", on, ss, ret)
            if kind == "memo":
                prog.append(("memo", 5, body))
            elif kind == "effect":
                prog.append(("effect", 5, body))
            else:
                prog.append(("selector", 5, 0, body))
            prog.append(("effect", 6, ("body", None, [], ("get", 5) if kind != "effect" else ("lit", 0))))
            for s, v in ((1, 5), (2, 7), (3, 1), (1, 6), (2, 7)):
                prog.append(("set", s, ("lit", v)))
            out.append(prog)
    return out


def untracked_forms_under_a_tracker():
    """the untracked forms exercised while ANOTHER computation's tracker is installed: a computation A writes (inside its tracked run)
    a signal that re-runs B, and B's cleanup / untrack block / component body / on-callback reads a signal t; A must not end up
    subscribed to t (and a later write to t must not re-run A)"""
    out = []
    for a_kind in ("effect", "memo"):
        for form in ("cleanup", "cleanup_child", "untrack", "component", "on_body", "getu"):
            for where in ("initial", "rerun"):
                b_ss, b_on, b_ret = [], None, ("get", 2)
                rd = ("log", ("get", 3))
                if form == "cleanup":
                    b_ss = [("oncleanup", 1, [rd])]
                elif form == "cleanup_child":
                    b_ss = [("scope", 9, [("oncleanup", 1, [rd])])]
                elif form == "untrack":
                    b_ss = [("untrack", [rd])]
                elif form == "component":
                    b_ss = [("component", [rd])]
                elif form == "on_body":
                    b_on, b_ret = [2], ("get", 3)
                else:
                    b_ret = ("add", ("get", 2), ("getu", 3))
                prog = [("signal", 1, ("lit", 1)), ("signal", 2, ("lit", 0)), ("signal", 3, ("lit", 0)),
                        ("effect", 4, ("body", b_on, b_ss, b_ret)),                                     # B
                        (a_kind, 5, ("body", None, [("set", 2, ("mul", ("get", 1), ("lit", 2)))], ("get", 1)))]   # A writes d inside its run
                if where == "rerun":
                    prog.append(("set", 1, ("lit", 3)))
                prog += [("set", 3, ("lit", 7)), ("set", 3, ("lit", 8)), ("set", 1, ("lit", 4)), ("set", 3, ("lit", 9))]
                out.append(prog)
    return out


def writers_in_propagation():
    """a computation W writes, while a write is being propagated, a signal t that another computation X -- already updated in this
    propagation -- read with tracking in the run it just finished: the write to t must re-run X (the 'if' direction of the property
    inside a propagation). W subscribed before X, so X runs first; the order flips on every round"""
    out = []
    for wk in ("effect", "memo"):
        for xk in ("effect", "memo", "selector"):
            for how in ("plain", "batch", "on", "nested", "self"):
                w_ss = [("set", 2, ("mul", ("get", 1), ("lit", 100)))]
                w_on = None
                if how == "batch":
                    w_ss = [("batch", w_ss)]
                elif how == "on":
                    w_on, w_ss = [1], [("set", 2, ("mul", ("getu", 1), ("lit", 100)))]
                elif how == "self":
                    w_ss = [("if", ("lt", ("lit", 3), ("get", 1)), [("set", 1, ("lit", 3))], [])]     # W clamps the source itself
                w = (wk, 3, ("body", w_on, w_ss, ("get", 1) if w_on is None else ("lit", 0)))
                xbody = ("body", None, [], ("add", ("get", 1), ("get", 2)))
                x = (xk, 4, xbody) if xk != "selector" else ("selector", 4, 0, xbody)
                if how == "nested":
                    x = ("effect", 9, ("body", None, [x], ("get", 1)))                                  # X re-created by its owner
                prog = [("signal", 1, ("lit", 0)), ("signal", 2, ("lit", 0)), w, x,
                        ("effect", 5, ("body", None, [], ("get", 4) if xk != "effect" and how != "nested" else ("lit", 0)))]
                out.append(prog + [("set", 1, ("lit", v)) for v in (1, 2, 5, 3)])
                # the same with the source written inside a batch: W then writes while the batch is being flushed
                out.append(prog + [("batch", [("set", 1, ("lit", v))]) for v in (1, 2, 5, 3)])
                out.append(prog + [("signal", 8, ("lit", 0)), ("batch", [("set", 8, ("lit", 1)), ("set", 1, ("lit", 4))]),
                                   ("batch", [("set", 8, ("lit", 2))]), ("set", 1, ("lit", 2))])
    return out


def duplicate_reads_dropped():
    """a computation reads one signal several times in a run (one subscription entry per read) and stops reading it in a later run:
    every entry must go, a later write to the signal re-runs nothing (seeds C03-g, C02-f, C11-g)"""
    out = []
    for kind in ("effect", "memo"):
        for twice in (("add", ("get", 1), ("get", 1)), ("add", ("get", 1), ("add", ("get", 2), ("get", 1))), ("add", ("add", ("get", 1), ("get", 1)), ("get", 1))):
            for other in (("get", 2), ("add", ("get", 2), ("get", 2))):
                prog = [("signal", 1, ("lit", 1)), ("signal", 2, ("lit", 1)), ("signal", 3, ("lit", 1)),
                        (kind, 4, ("body", None, [], ("ite", ("lt", ("lit", 0), ("get", 3)), twice, other))),
                        ("effect", 5, ("body", None, [], ("get", 4))) if kind == "memo" else ("signal", 5, ("lit", 0)),
                        ("set", 1, ("lit", 2)), ("set", 3, ("lit", 0)), ("set", 1, ("lit", 3)), ("set", 2, ("lit", 4)),
                        ("set", 3, ("lit", 1)), ("set", 2, ("lit", 5)), ("set", 1, ("lit", 6))]
                out.append(prog)
    return out


def oracle(prog, steps):
    """the subscription oracle, plus the 'if' direction at the position of every write, including the writes a computation makes
    while another write is being propagated"""
    return rcheck.subscription_failures(prog, steps) + rcheck.write_rerun_failures(prog, steps)


def gen(tier, rng):
    n_rand = 800 if tier == "quick" else 10000
    cases = [("readforms:%d" % i, p) for i, p in enumerate(read_forms(rng))]
    cases += [("under-tracker:%d" % i, p) for i, p in enumerate(untracked_forms_under_a_tracker())]
    cases += [("writers:%d" % i, p) for i, p in enumerate(writers_in_propagation())]
    cases += [("dup-reads:%d" % i, p) for i, p in enumerate(duplicate_reads_dropped())]
    cases += [("random:%d" % i, p) for i, p in
              enumerate(reactive_gen.random_programs(rng.randrange(1 << 30), n_rand, FEATS, (3, 8), (3, 7)))]
    # the same untrack blocks (and batches) entered while another root is the current one
    cases += rcheck.via_foreign_copies(cases, every=3)
    return cases


def nontrivial(prog, steps):
    """some computation re-ran with a subscription list different from its previous one, or an untracked form was exercised"""
    for st in steps:
        for l in st["events"]:
            f = l.split(" ")
            if f[0] == "read" and len(f) > 4 and f[3] == "1" and f[4] == "0":
                return True
    return False


def main(argv):
    return rcheck.run(
        PID, argv, module="C03", theorems=['C03_run_node_spec', 'C03_untracked_reads_do_not_subscribe', 'C03_eval_depends_on_reads_only', 'C03_edges_symmetric',
                                          'C03_untrack_never_subscribes', 'C03_component_never_subscribes', 'C03_cleanups_never_subscribe', 'C03_rerun_cleanups_never_subscribe',
                                          'C03_on_tracks_deps_only', 'C03_get_untracked_never_subscribes', 'C03_get_subscribes'], bridge=1500, extra_targets=["theories/Reactive/Bridge.vo"], gen=gen, oracle=oracle, nontrivial=nontrivial,
        rule=("read-form combinatorics: every pair of the 11 read forms (get, get_untracked, untrack, component body, on() "
              "dependency, on() body, cleanup callback, track, nested scope, duplicate read, signal created in the same run) in "
              "a memo, an effect and a selector, followed by a write to every signal; random programs rich in untracked forms; "
              "non-trivial = a syntactically tracked read occurred where the specification says it must not subscribe; "
              "distinct = distinct program text"),
        assumptions=["the specification-level tracking flag is maintained by the driver, independently of the runtime's tracker"])
