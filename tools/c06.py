"""C06 -- Keyed/Indexed reconcile the DOM to the new list, preserving retained nodes (DESIGN.md 5.C06).
Part 1 (this file): the node-diffing routine reconcile_fragments through the verif hook, on the in-process DOM.
Part 2: chains of list updates through the real Keyed / Indexed components on the in-process DOM: after every update the nodes
between the list's boundaries are the rendered items of the new list (= a fresh render), retained items keep their nodes, nodes
outside the region keep theirs."""
import itertools
import random

import c05
import domlib
import viewgen
import vlib
from vlib import glist

PID = "C06"
THEOREMS = ["C06_reconcile_correct", "C06_reconcile_spec", "C06_reconcile_correct_marker",
            "C06c_list_reconcile", "C06c_list_reconcile_in_parent", "C06c_keyed_retained", "C06c_indexed_retained"]


def arrangements(keys, maxlen):
    out = []
    for n in range(maxlen + 1):
        out.extend(list(p) for p in itertools.permutations(keys, n))
    return out


def gen(tier, rng):
    cases = []
    # exhaustive: a = any duplicate-free list over 4 (quick) / 5 (thorough) old nodes, b over old + 2 new nodes, + `end`
    n_old = 4 if tier == "quick" else 5
    olds = list(range(1, n_old + 1))
    news = [11, 12]
    END = 99
    a_lists = [a for a in arrangements(olds, n_old)]
    b_lists = arrangements(olds + news, 4 if tier == "quick" else 5)
    pairs = list(itertools.product(a_lists, b_lists))
    if len(pairs) > (6000 if tier == "quick" else 60000):
        pairs = rng.sample(pairs, 6000 if tier == "quick" else 60000)
    for a, b in pairs:
        pre = rng.choice([[], [100], [100, 101]])
        post = rng.choice([[], [200], [200, 201]])
        cases.append((pre, a + [END], b + [END], post))        # the way Keyed / Indexed call it
        if a:
            cases.append((pre, a, b, post))                    # the routine alone (a non-empty)
    # random long pairs biased to each branch
    for _ in range(400 if tier == "quick" else 5000):
        n = rng.randint(5, 40)
        a = rng.sample(range(1, 99), n)
        kind = rng.choice(["append", "remove", "prefix", "suffix", "swap", "shuffle", "runs", "replace"])
        b = list(a)
        if kind == "append":
            b = b + rng.sample(range(101, 199), rng.randint(1, 5))
        elif kind == "remove":
            b = [x for x in b if rng.random() < 0.7]
        elif kind == "prefix":
            b = rng.sample(range(101, 199), rng.randint(1, 4)) + b
        elif kind == "suffix":
            k = rng.randint(1, n - 1)
            b = rng.sample(range(101, 199), 2) + b[k:]
        elif kind == "swap":
            i, j = sorted(rng.sample(range(n), 2))
            b[i], b[j] = b[j], b[i]
        elif kind == "shuffle":
            rng.shuffle(b)
        elif kind == "runs":
            k = rng.randint(1, n - 1)
            b = b[k:] + b[:k]
        else:
            for _ in range(rng.randint(1, 4)):
                b[rng.randrange(n)] = rng.randint(101, 199)
            b = list(dict.fromkeys(b))
        cases.append(([250], a + [END], b + [END], [251]))
    return cases


# ---- part 2: chains of updates through Keyed / Indexed ----
def labels(view, st, ctx=(), item=None):
    """one label per entry of the driver's structured node dump (document order, 'e' = end of element): nodes carrying the same
    label before and after an update must be the same DOM node. Items are labelled by key (Keyed) or by position and value (Indexed)."""
    k = view[0]
    out = []
    if k == "el":
        out.append(ctx + ("E",))
        if view[1] not in viewgen.VOID:
            for i, c in enumerate(view[3]):
                out += labels(c, st, ctx + (i,), item)
        out.append(None)
    elif k in ("text", "dyntext", "item"):
        out.append(ctx + ("T",))
    elif k in ("dyn", "show"):
        on = bool(st["b"].get(view[1]))
        out.append(ctx + ("C0",))
        kids = (view[2] if on else view[3]) if k == "dyn" else (view[2] if on else [])
        for i, c in enumerate(kids):
            out += labels(c, st, ctx + (("R", on), i), item)
        out.append(ctx + ("C1",))
    elif k == "list":
        out.append(ctx + ("C0",))
        for pos, it in enumerate(st["l"].get(view[2], [])):
            who = ("K", it) if view[1] else ("I", pos, it)
            for i, c in enumerate(view[3]):
                out += labels(c, st, ctx + (who, i), it)
        out.append(ctx + ("C1",))
    else:
        for i, c in enumerate(view[1]):
            out += labels(c, st, ctx + (i,), item)
    return out


def retained_failures(view, st_before, st_after, nodes_before, nodes_after):
    lb, la = labels(view, st_before), labels(view, st_after)
    if len(lb) != len(nodes_before) or len(la) != len(nodes_after):
        return []                      # a structural difference is reported by the fresh-render oracle
    ids_b = {l: n[1] for l, n in zip(lb, nodes_before) if l is not None}
    bad = [(l, ids_b[l], n[1]) for l, n in zip(la, nodes_after) if l is not None and l in ids_b and ids_b[l] != n[1]]
    if bad:
        return [{"what": "a retained item (same key / same position and value) or a node outside the list did not keep its DOM node",
                 "label": str(bad[0][0]), "node_before": bad[0][1], "node_after": bad[0][2], "count": len(bad)}]
    return []


def list_views():
    E = lambda tag, *kids: ("el", tag, [], list(kids))
    T = lambda s: ("text", s)
    tm1 = [E("li", ("item",))]
    tm2 = [E("li", ("item",)), T("-")]
    tm3 = [E("li", E("b", ("item",)), ("dyntext", 0))]
    out = []
    for keyed in (True, False):
        L = lambda tmpl, sig=0: ("list", keyed, sig, tmpl)
        out += [
            E("ul", L(tm1)),
            ("frag", [T("pre"), L(tm1), E("span", T("post"))]),
            E("div", E("i", T("a")), L(tm2), T("z")),
            E("div", L(tm3)),
            E("div", L(tm1, 0), L(tm1, 1)),                     # two lists side by side: each other's boundary
            E("div", ("show", 0, [E("p", T("s"))]), L(tm1)),
        ]
    return out


def arrangements_upto(keys, n):
    return [list(p) for k in range(n + 1) for p in itertools.permutations(keys, k)]


def gen_chains(tier, rng):
    views = list_views()
    cases = []
    small = arrangements_upto([1, 2, 3], 3)
    if tier == "thorough":
        chains = [(a, b, c) for a in small for b in small for c in small]
        for ch in chains:
            cases.append((views[0], ch))
    n = 700 if tier == "quick" else 6000
    for _ in range(n):
        v = rng.choice(views)
        m = rng.randint(2, 4)
        ch = []
        cur = rng.sample(range(1, 6), rng.randint(0, 4))
        ch.append(cur)
        for _ in range(m):
            c = rng.random()
            nxt = list(cur)
            if c < 0.2 and nxt:
                nxt.pop(rng.randrange(len(nxt)))
            elif c < 0.4:
                fresh = [x for x in range(1, 10) if x not in nxt]
                nxt.insert(rng.randint(0, len(nxt)), rng.choice(fresh))
            elif c < 0.55 and nxt:
                fresh = [x for x in range(1, 10) if x not in nxt]
                nxt[rng.randrange(len(nxt))] = rng.choice(fresh)
            elif c < 0.7:
                rng.shuffle(nxt)
            elif c < 0.8:
                nxt = []
            else:
                nxt = rng.sample(range(1, 10), rng.randint(0, 5))
            ch.append(nxt)
            cur = nxt
        cases.append((v, tuple(ch)))
    out = []
    for v, ch in cases:
        sigs = sorted(set(x[2] for x in _walk(v) if x[0] == "list"))
        st = {"s": {0: "x"}, "b": {0: True}, "l": {k: list(ch[0]) for k in sigs}}
        ops = []
        for i, l in enumerate(ch[1:]):
            ops.append(("l", sigs[i % len(sigs)] if len(sigs) > 1 else sigs[0], list(l)))
        out.append((st, v, ops))
    return out


def _walk(v):
    yield v
    if v[0] == "el":
        kids = v[3]
    elif v[0] == "dyn":
        kids = v[2] + v[3]
    elif v[0] == "show":
        kids = v[2]
    elif v[0] == "list":
        kids = v[3]
    elif v[0] in ("frag", "comp", "nohydrate", "nossr"):
        kids = v[1]
    else:
        kids = []
    for c in kids:
        yield from _walk(c)


def oracle(pre, a, b, post, line):
    if line.startswith("PANIC") or line.startswith("OUT"):
        return "reconcile panicked"
    parts = dict(p.split(" ", 1) if " " in p else (p, "") for p in line.split(" ; "))
    children = [int(x) for x in parts["children"].split()]
    detached = set(int(x) for x in parts["detached"].split())
    touched = set(int(x) for x in parts["touched"].split())
    if children != pre + b + post:
        return "children are not pre ++ new ++ post"
    if detached != set(a) - set(b):
        return "nodes that left the list are not exactly the detached ones"
    if not touched <= set(a) | set(b):
        return "a node outside the list region was touched"
    return None


def main(argv):
    a_, seed = vlib.args(argv)
    chk = vlib.Check(PID, a_.tier, seed, "proof")
    rng = random.Random(seed * 2003 + 6)
    chk.trusted = ["Coq 8.16.1 kernel + vm_compute", "hand-written model coq/theories/Dom/Reconcile.v tied to iter.rs by this correspondence run",
                   "the in-process DOM harness/dom/shims/web-sys (stands in for a browser: WHATWG insertBefore / removeChild / replaceChild on one parent)",
                   "tools/domgen.py (generated crate root with the client polarity), the add-only hook verif_reconcile_fragments", "tools/c06.py"]
    chk.assumptions = ["precondition as at the call sites: a non-empty, a and b duplicate-free, a = consecutive children of the parent, nodes of b not in a are detached"]
    chk.rule = ("exhaustive: every duplicate-free a over 4 (quick) / 5 (thorough) old nodes x every duplicate-free b of length <= 4/5 over old + 2 new nodes, "
                "with and without the `end` sentinel that Keyed/Indexed append, random siblings before and after (sampled to 6000 pairs in quick); random "
                "pairs of length 5-40 biased to each branch (append, remove, prefix, suffix, swap, shuffle, rotation, replacement); non-trivial = "
                "b is neither equal to a nor disjoint from it; distinct = distinct (pre, a, b, post)")
    ok, msg = vlib.proof_step(chk, "C06+C06c", ["theories/Props/C06.vo", "theories/Props/C06c.vo", "theories/Dom/Show.vo"], THEOREMS)
    broken = [] if ok else ["theorem: " + msg]
    binp = domlib.build(chk)
    if not binp:
        chk.violation({"property": PID, "broken": "harness build"}, no_input=True)
        return chk.finish()
    cases = gen(a_.tier, rng)
    fmt = lambda l: "(" + " ".join(map(str, l)) + ")"
    try:
        impl = domlib.run(binp, ["(reconcile %s %s %s %s)" % (fmt(p), fmt(a), fmt(b), fmt(q)) for p, a, b, q in cases])
    except RuntimeError as e:
        chk.violation({"property": PID, "broken": "driver run", "detail": str(e)}, no_input=True)
        return chk.finish()
    model = None
    try:
        pre = "From Coq Require Import List String.\nFrom Syc Require Import Dom.Reconcile Dom.Show.\nImport ListNotations.\n"
        exprs = ["run_reconciles %s" % glist(["(%s, %s, %s, %s)" % tuple(glist([str(x) for x in l]) for l in c) for c in cases[i:i + 400]])
                 for i in range(0, len(cases), 400)]
        outs = vlib.coq_eval(PID, pre, exprs, per_file=max(1, (len(exprs) + 15) // 16))
        model = [l for o in outs for l in o.split("\n")]
    except RuntimeError as e:
        broken.append("model evaluation: " + str(e)[-500:])
        chk.obligation("model evaluation", False, str(e))
    mism, orfail = [], []
    for i, ((p, a, b, q), lines) in enumerate(zip(cases, impl)):
        line = lines[0]
        chk.note_case(str((p, a, b, q)), a != b and bool(set(a) & set(b) - {99}))
        w = oracle(p, a, b, q, line)
        if w:
            orfail.append({"what": w, "pre": p, "a": a, "b": b, "post": q, "output": line if not line.startswith("PANIC") else bytes.fromhex(line[6:]).decode("utf8", "replace")})
        got = "PANIC" if line.startswith("PANIC") else line
        if model is not None and model[i] != got:
            mism.append({"pre": p, "a": a, "b": b, "post": q, "impl": got, "model": model[i]})
    chk.traces = len(cases) if model is not None else 0
    chk.exhaustive = a_.tier == "thorough"
    chk.obligation("correspondence: model = real reconcile_fragments on %d cases" % len(cases), model is not None and not mism, str(mism[:2]))
    chk.obligation("oracle: children = pre ++ b ++ post, leavers detached, nothing outside the region touched", not orfail, str(orfail[:2]))
    for i in (0, len(cases) // 2, len(cases) - 1):
        chk.sample({"case": cases[i], "impl": impl[i][0]})
    # ---- part 2 ----
    chains = gen_chains(a_.tier, rng)
    clines = ["(client %s %s (%s))" % (viewgen.sx_state(st), viewgen.sx_view(v), " ".join(c05.sx_op(o) for o in ops)) for st, v, ops in chains]
    try:
        cimpl = domlib.run(binp, clines)
    except RuntimeError as e:
        chk.violation({"property": PID, "broken": "driver run (list chains)", "detail": str(e)}, no_input=True)
        return chk.finish()
    chainfail = c05.evaluate(chk, chains, cimpl, clines)
    for (st, v, ops), out, line in zip(chains, cimpl, clines):
        if out[0].startswith("PANIC"):
            continue
        cur, prev = st, None
        for k, l in enumerate(out):
            parts = dict(p.split(" ", 1) if " " in p else (p, "") for p in l.split(" ; "))
            nodes = c05.parse_nodes(parts["nodes"])
            if k > 0:
                nxt = c05.apply_op(cur, ops[k - 1])
                f = retained_failures(v, cur, nxt, prev, nodes)
                if f:
                    f[0].update({"scenario": line, "step": k})
                    chainfail.append(f[0])
                    break
                cur = nxt
            prev = nodes
    chk.obligation("oracle (chains of updates through Keyed / Indexed, %d scenarios): region = fresh render of the new list, retained items and "
                   "outside nodes keep their DOM nodes" % len(chains), not chainfail, str(chainfail[:1]))
    for o in chainfail:
        o.setdefault("what", "list chain")
    orfail = [dict(o, pre=[], a=[], b=[], post=[]) if "pre" not in o else o for o in orfail] + chainfail
    if orfail:
        orfail.sort(key=lambda o: len(str(o)))
        chk.violation({"property": PID, "kind": "oracle failure on implementation output", "input": orfail[0], "count": len(orfail), "also_broken": broken})
    elif mism or broken:
        chk.violation({"property": PID, "kind": "proof/correspondence broken, oracle clean on all inputs explored", "broken": broken,
                       "mismatches": mism[:3], "mismatch_count": len(mism)}, no_input=True)
    return chk.finish()
