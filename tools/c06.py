"""C06 -- Keyed/Indexed reconcile the DOM to the new list, preserving retained nodes (DESIGN.md 5.C06).
Part 1 (this file): the node-diffing routine reconcile_fragments through the verif hook, on the in-process DOM.
Part 2: chains of list updates through the real Keyed / Indexed components are exercised by C05's check."""
import itertools
import random

import domlib
import vlib
from vlib import glist

PID = "C06"
THEOREMS = ["C06_reconcile_correct_bounded", "C06_reconcile_correct_bounded_raw"]


def arrangements(keys, maxlen):
    out = []
    for n in range(maxlen + 1):
        out.extend(list(p) for p in itertools.permutations(keys, n))
    return out


def gen(tier, rng):
    cases = []
    # exhaustive: a = any duplicate-free list over 4 (quick) / 5 (thorough) old nodes, b over old + 2 new nodes, + `end`
    n_old = 4 if tier == "quick" else 5
    olds = list(range(1, n_old + 1))
    news = [11, 12]
    END = 99
    a_lists = [a for a in arrangements(olds, n_old)]
    b_lists = arrangements(olds + news, 4 if tier == "quick" else 5)
    pairs = list(itertools.product(a_lists, b_lists))
    if len(pairs) > (6000 if tier == "quick" else 60000):
        pairs = rng.sample(pairs, 6000 if tier == "quick" else 60000)
    for a, b in pairs:
        pre = rng.choice([[], [100], [100, 101]])
        post = rng.choice([[], [200], [200, 201]])
        cases.append((pre, a + [END], b + [END], post))        # the way Keyed / Indexed call it
        if a:
            cases.append((pre, a, b, post))                    # the routine alone (a non-empty)
    # random long pairs biased to each branch
    for _ in range(400 if tier == "quick" else 5000):
        n = rng.randint(5, 40)
        a = rng.sample(range(1, 99), n)
        kind = rng.choice(["append", "remove", "prefix", "suffix", "swap", "shuffle", "runs", "replace"])
        b = list(a)
        if kind == "append":
            b = b + rng.sample(range(101, 199), rng.randint(1, 5))
        elif kind == "remove":
            b = [x for x in b if rng.random() < 0.7]
        elif kind == "prefix":
            b = rng.sample(range(101, 199), rng.randint(1, 4)) + b
        elif kind == "suffix":
            k = rng.randint(1, n - 1)
            b = rng.sample(range(101, 199), 2) + b[k:]
        elif kind == "swap":
            i, j = sorted(rng.sample(range(n), 2))
            b[i], b[j] = b[j], b[i]
        elif kind == "shuffle":
            rng.shuffle(b)
        elif kind == "runs":
            k = rng.randint(1, n - 1)
            b = b[k:] + b[:k]
        else:
            for _ in range(rng.randint(1, 4)):
                b[rng.randrange(n)] = rng.randint(101, 199)
            b = list(dict.fromkeys(b))
        cases.append(([250], a + [END], b + [END], [251]))
    return cases


def oracle(pre, a, b, post, line):
    if line.startswith("PANIC") or line.startswith("OUT"):
        return "reconcile panicked"
    parts = dict(p.split(" ", 1) if " " in p else (p, "") for p in line.split(" ; "))
    children = [int(x) for x in parts["children"].split()]
    detached = set(int(x) for x in parts["detached"].split())
    touched = set(int(x) for x in parts["touched"].split())
    if children != pre + b + post:
        return "children are not pre ++ new ++ post"
    if detached != set(a) - set(b):
        return "nodes that left the list are not exactly the detached ones"
    if not touched <= set(a) | set(b):
        return "a node outside the list region was touched"
    return None


def main(argv):
    a_, seed = vlib.args(argv)
    chk = vlib.Check(PID, a_.tier, seed, "proof")
    rng = random.Random(seed * 2003 + 6)
    chk.trusted = ["Coq 8.16.1 kernel + vm_compute", "hand-written model coq/theories/Dom/Reconcile.v tied to iter.rs by this correspondence run",
                   "the in-process DOM harness/dom/shims/web-sys (stands in for a browser: WHATWG insertBefore / removeChild / replaceChild on one parent)",
                   "tools/domgen.py (generated crate root with the client polarity), the add-only hook verif_reconcile_fragments", "tools/c06.py"]
    chk.assumptions = ["precondition as at the call sites: a non-empty, a and b duplicate-free, a = consecutive children of the parent, nodes of b not in a are detached"]
    chk.rule = ("exhaustive: every duplicate-free a over 4 (quick) / 5 (thorough) old nodes x every duplicate-free b of length <= 4/5 over old + 2 new nodes, "
                "with and without the `end` sentinel that Keyed/Indexed append, random siblings before and after (sampled to 6000 pairs in quick); random "
                "pairs of length 5-40 biased to each branch (append, remove, prefix, suffix, swap, shuffle, rotation, replacement); non-trivial = "
                "b is neither equal to a nor disjoint from it; distinct = distinct (pre, a, b, post)")
    ok, msg = vlib.proof_step(chk, "C06", ["theories/Props/C06.vo", "theories/Dom/Show.vo"], THEOREMS)
    broken = [] if ok else ["theorem: " + msg]
    binp = domlib.build(chk)
    if not binp:
        chk.violation({"property": PID, "broken": "harness build"}, no_input=True)
        return chk.finish()
    cases = gen(a_.tier, rng)
    fmt = lambda l: "(" + " ".join(map(str, l)) + ")"
    try:
        impl = domlib.run(binp, ["(reconcile %s %s %s %s)" % (fmt(p), fmt(a), fmt(b), fmt(q)) for p, a, b, q in cases])
    except RuntimeError as e:
        chk.violation({"property": PID, "broken": "driver run", "detail": str(e)}, no_input=True)
        return chk.finish()
    model = None
    try:
        pre = "From Coq Require Import List String.\nFrom Syc Require Import Dom.Reconcile Dom.Show.\nImport ListNotations.\n"
        exprs = ["run_reconciles %s" % glist(["(%s, %s, %s, %s)" % tuple(glist([str(x) for x in l]) for l in c) for c in cases[i:i + 400]])
                 for i in range(0, len(cases), 400)]
        outs = vlib.coq_eval(PID, pre, exprs, per_file=max(1, (len(exprs) + 15) // 16))
        model = [l for o in outs for l in o.split("\n")]
    except RuntimeError as e:
        broken.append("model evaluation: " + str(e)[-500:])
        chk.obligation("model evaluation", False, str(e))
    mism, orfail = [], []
    for i, ((p, a, b, q), lines) in enumerate(zip(cases, impl)):
        line = lines[0]
        chk.note_case(str((p, a, b, q)), a != b and bool(set(a) & set(b) - {99}))
        w = oracle(p, a, b, q, line)
        if w:
            orfail.append({"what": w, "pre": p, "a": a, "b": b, "post": q, "output": line if not line.startswith("PANIC") else bytes.fromhex(line[6:]).decode("utf8", "replace")})
        got = "PANIC" if line.startswith("PANIC") else line
        if model is not None and model[i] != got:
            mism.append({"pre": p, "a": a, "b": b, "post": q, "impl": got, "model": model[i]})
    chk.traces = len(cases) if model is not None else 0
    chk.exhaustive = a_.tier == "thorough"
    chk.obligation("correspondence: model = real reconcile_fragments on %d cases" % len(cases), model is not None and not mism, str(mism[:2]))
    chk.obligation("oracle: children = pre ++ b ++ post, leavers detached, nothing outside the region touched", not orfail, str(orfail[:2]))
    for i in (0, len(cases) // 2, len(cases) - 1):
        chk.sample({"case": cases[i], "impl": impl[i][0]})
    if orfail:
        orfail.sort(key=lambda o: len(str(o)))
        chk.violation({"property": PID, "kind": "oracle failure on implementation output", "input": orfail[0], "count": len(orfail), "also_broken": broken})
    elif mism or broken:
        chk.violation({"property": PID, "kind": "proof/correspondence broken, oracle clean on all inputs explored", "broken": broken,
                       "mismatches": mism[:3], "mismatch_count": len(mism)}, no_input=True)
    return chk.finish()
