"""C13, rendering half: views of static content, Suspense boundaries and gated async components rendered by the real
render_to_string / render_to_string_await_suspense / render_to_string_stream (harness/ssr-driver, mode `suspense`)
against coq/theories/Async/Stream.v: python AST, renderers, generator, extraction of the abstract observations
from the real bytes (an HTML reader plus a simulation of the inline script), and the oracle restating the property."""
import itertools
from html.parser import HTMLParser

import vlib
from vlib import glist, gstr

PRE = "From Coq Require Import List String.\nFrom Syc Require Import Async.Stream.\nImport ListNotations.\nOpen Scope string_scope.\n"

# view = ("text", s) | ("el", tag, [views]) | ("sus", id, [views])      fallback text is "F<id>"
#      | ("resv", gate, [views])  a Resource created outside every boundary, read here: nothing while loading, the views afterwards;
#                                 for the boundary that reads it, it is a task (modelled as an async component)
#      | ("resu", gate, [views])  the reverse of resv: the views are shown WHILE the resource is loading and nothing afterwards, so the
#                                 boundaries and tasks inside the views are disposed in the middle of the render; for the boundary that
#                                 reads it, it is a task with no content (modelled as an async component without content); the gates
#                                 inside the views gate nothing that survives
#      | ("flip", gate)  a suspense task of the surrounding boundary that sets the flag `gate` when the gate opens (modelled as an async
#                        component without content)
#      | ("when", gate, [views]) / ("unless", gate, [views])  dynamic views showing the views once / until the flag is set. `when` is
#                        modelled as an async component on the same gate (its flip must sit under the same or an enclosing boundary);
#                        `unless` is modelled as nothing (in the sync render, where no task ever runs, as its content)
#      | ("cresv", [views])  a CLIENT resource read here: on the server nothing is fetched, nothing is shown, no task exists
#      | ("live",)   a dynamic text "alive" that a cleanup callback of its scope turns into "gone" (the render must show "alive")
#      | ("trans", id, [views])    Transition: in the three SSR modes it must behave as a Suspense boundary (modelled as one)
#      | ("async", gate, [views])


def hx(s):
    return "x" + s.encode().hex()


def sx(v):
    if v[0] == "cresv":
        return "(cresv (%s))" % " ".join(sx(c) for c in v[1])
    if v[0] == "live":
        return "(live)"
    if v[0] == "flip":
        return "(flip %d)" % v[1]
    if v[0] in ("when", "unless"):
        return "(%s %d (%s))" % (v[0], v[1], " ".join(sx(c) for c in v[2]))
    if v[0] == "text":
        return "(text %s)" % hx(v[1])
    if v[0] == "el":
        return "(el %s (%s))" % (hx(v[1]), " ".join(sx(c) for c in v[2]))
    if v[0] in ("sus", "trans"):
        return "(%s ((text %s)) (%s))" % (v[0], hx("F%d" % v[1]), " ".join(sx(c) for c in v[2]))
    if v[0] == "dyn":
        return "(dyn (%s))" % " ".join(sx(c) for c in v[1])
    return "(%s %d (%s))" % (v[0] if v[0] in ("resv", "resu") else "async", v[1], " ".join(sx(c) for c in v[2]))


def splice(vs, sync=False):
    """dynamic blocks are transparent for the abstract model (they only add marker comments and an effect scope); [sync]: the reading
    for the sync render, in which no task ever runs (flags stay unset)"""
    out = []
    for v in vs:
        if v[0] == "dyn":
            out += splice(v[1], sync)
        elif v[0] == "flip":
            out.append(("async", v[1], []))
        elif v[0] == "when":
            out.append(("async", v[1], splice(v[2], sync)))
        elif v[0] == "unless":
            if sync:
                out += splice(v[2], sync)
        elif v[0] == "cresv":
            pass                      # shows nothing on the server
        elif v[0] in ("text", "live"):
            out.append(v)
        elif v[0] == "el":
            out.append(("el", v[1], splice(v[2], sync)))
        elif v[0] == "resu":
            out.append(("async", v[1], []))
        else:
            out.append((v[0], v[1], splice(v[2], sync)))
    return out


def cq(v):
    if v[0] == "live":
        return "SText %s" % gstr("alive")
    if v[0] == "text":
        return "SText %s" % gstr(v[1])
    if v[0] == "el":
        return "SEl %s %s" % (gstr(v[1]), glist([cq(c) for c in v[2]]))
    if v[0] in ("sus", "trans"):
        return "SSus %d %s %s" % (v[1], gstr("F%d" % v[1]), glist([cq(c) for c in v[2]]))
    return "SAsync %d %s" % (v[1], glist([cq(c) for c in v[2]]))


def cqx(v):
    """the view as a term of Async/StreamX.v (the translation into Stream.v's views happens inside the model)"""
    L = lambda cs: glist([cqx(c) for c in cs])
    k = v[0]
    if k == "text":
        return "XText %s" % gstr(v[1])
    if k == "live":
        return "XLive"
    if k == "el":
        return "XEl %s %s" % (gstr(v[1]), L(v[2]))
    if k in ("sus", "trans"):
        return "%s %d %s %s" % ("XSus" if k == "sus" else "XTrans", v[1], gstr("F%d" % v[1]), L(v[2]))
    if k == "dyn":
        return "XDyn %s" % L(v[1])
    if k == "cresv":
        return "XCres %s" % L(v[1])
    if k == "flip":
        return "XFlip %d" % v[1]
    return "%s %d %s" % ({"async": "XAsync", "resv": "XResv", "resu": "XResu", "when": "XWhen", "unless": "XUnless"}[k], v[1], L(v[2]))


def gates(v):
    if v[0] in ("text", "live", "cresv"):
        return []
    if v[0] == "flip":
        return [v[1]]
    if v[0] in ("when", "unless"):
        return [g for c in v[2] for g in gates(c)]
    if v[0] == "dyn":
        return [g for c in v[1] for g in gates(c)]
    if v[0] in ("async", "resv", "resu"):
        return [v[1]] + [g for c in v[2] for g in gates(c)]
    return [g for c in v[2] for g in gates(c)]


def boundary_ids(v):
    if v[0] in ("text", "live", "cresv", "flip"):
        return []
    if v[0] == "dyn":
        return [b for c in v[1] for b in boundary_ids(c)]
    return ([v[1]] if v[0] in ("sus", "trans") else []) + [b for c in v[2] for b in boundary_ids(c)]


# ---- reference semantics used by the oracle (the property text, not the model) ----
def full(v):
    """everything resolved, no fallback"""
    if v[0] == "cresv":
        return ""
    if v[0] == "live":
        return "alive"
    if v[0] == "text":
        return v[1]
    if v[0] == "dyn":
        return "".join(full(c) for c in v[1])
    if v[0] == "el":
        return "<%s>%s</%s>" % (v[1], "".join(full(c) for c in v[2]), v[1])
    return "".join(full(c) for c in v[2])


def shell(v):
    """nothing resolved: boundaries show their fallback"""
    if v[0] == "cresv":
        return ""
    if v[0] == "live":
        return "alive"
    if v[0] == "text":
        return v[1]
    if v[0] == "dyn":
        return "".join(shell(c) for c in v[1])
    if v[0] == "el":
        return "<%s>%s</%s>" % (v[1], "".join(shell(c) for c in v[2]), v[1])
    if v[0] in ("sus", "trans"):
        return "F%d" % v[1]
    return ""


# ---- generator ----
def shapes():
    """view families; gates and boundary ids are numbered by the caller"""
    T = lambda s: ("text", s)
    E = lambda t, *c: ("el", t, list(c))
    S = lambda i, *c: ("sus", i, list(c))
    R = lambda i, *c: ("trans", i, list(c))
    V = lambda g, *c: ("resv", g, list(c))
    LIVE = ("live",)
    CV = lambda *c: ("cresv", list(c))
    U = lambda g, *c: ("resu", g, list(c))
    FL = lambda g: ("flip", g)
    W = lambda g, *c: ("when", g, list(c))
    N = lambda g, *c: ("unless", g, list(c))
    A = lambda g, *c: ("async", g, list(c))
    D = lambda *c: ("dyn", list(c))
    return [
        [S(1, A(1, T("a")))],
        [E("div", S(1, A(1, E("p", T("a"))), T("s")), T("z"))],
        [S(1, A(1, T("a")), A(2, T("b")))],
        [S(1, A(1, T("a"))), S(2, A(2, T("b")))],
        # static nesting
        [S(1, A(1, T("a")), S(2, A(2, T("b"))))],
        [S(1, S(2, A(1, T("b"))), A(2, T("a")))],
        [S(1, S(2, S(3, A(1, T("c"))), A(2, T("b"))), A(3, T("a")))],
        [S(1, S(2, A(1, T("b"))), S(3, A(2, T("c"))), A(3, T("a")))],
        # dynamic nesting: a boundary inside the resolved content of an async component
        [S(1, A(1, S(2, A(2, T("b")))))],
        [S(1, A(1, T("a"), S(2, A(2, T("b")), A(3, T("c")))))],
        [E("div", S(1, A(1, E("span", S(2, A(2, T("b"))))), A(3, T("c"))))],
        # chained async components under one boundary
        [S(1, A(1, A(2, T("b")), T("a")))],
        [S(1, A(1, A(2, A(3, T("c")))))],
        # boundaries without tasks, an empty boundary inside a loading one
        [S(1, T("s"))],
        [S(1, A(1, T("a")), S(2, T("s")))],
        [S(1, S(2, T("s"))), S(3, A(1, T("a")))],
        [S(1, A(1, S(2, T("s"))))],
        # siblings inside elements, three boundaries in a row
        [E("div", S(1, A(1, T("a")))), E("p", S(2, A(2, T("b")))), S(3, A(3, T("c")))],
        [S(1, A(1, S(2, A(2, S(3, A(3, T("c")))))))],
        [S(1, A(1, T("a")), S(2, A(2, T("b")), S(3, A(3, T("c")), A(4, T("d")))))],
        # boundaries created inside dynamic blocks (effect scopes), side by side and mixed with top-level ones
        [E("section", D(S(1, A(1, T("a"))))), E("section", D(S(2, A(2, T("b")))))],
        [D(S(1, A(1, T("a")))), S(2, A(2, T("b")))],
        [S(1, A(1, T("a"))), D(S(2, A(2, T("b"))), S(3, A(3, T("c"))))],
        [D(D(S(1, A(1, T("a")))), E("p", D(S(2, A(2, D(S(3, A(3, T("c")))))))))],
        # a Resource created outside the boundary that reads it; the views it unlocks contain further async work
        [S(1, V(1, T("a")))],
        [S(1, V(1, A(2, T("c"))))],
        [S(1, V(1, S(2, A(2, T("b")))), A(3, T("z")))],
        [E("div", S(1, V(1, A(2, E("p", T("c")))), T("s")), S(2, V(3, T("r"))))],
        # ONE resource read under several boundaries (two views of the same gate = the same Resource): every reading boundary is
        # loading until the fetch completes (seed C13-h)
        [S(1, V(1, T("a"))), S(2, V(1, T("b")))],
        [S(1, S(2, V(1, T("b"))), V(1, T("a")))],
        [E("div", S(1, V(1, T("a")), A(2, T("x"))), S(2, V(1, A(3, T("c")))), S(3, V(1, T("d"))))],
        # content that a cleanup callback changes when the render's scopes are disposed: the output must show the state the render reached
        [S(1, A(1, T("a")), LIVE)],
        [S(1, A(1, LIVE, T("b")))],
        [E("div", LIVE, S(1, A(1, T("a"))), S(2, A(2, LIVE)))],
        # a client resource read under a boundary: no task on the server
        [S(1, CV(T("never")), T("s"))],
        [S(1, CV(T("never")), A(1, T("a")))],
        [E("div", S(1, S(2, CV(T("never"))), A(1, T("a"))))],
        # boundaries and tasks that are disposed in the middle of the render (the dynamic view that shows them while a resource is
        # loading re-runs when it arrives): they gate nothing any more, and nothing of them may be streamed
        [S(1, U(1, S(2, A(2, T("b")))))],
        [S(1, U(1, S(2, T("s"))), T("z"))],
        [S(1, U(1, A(2, T("b"))))],
        [S(1, U(1, S(2, A(2, T("b")), S(3, A(3, T("c"))))), A(4, T("a")))],
        [E("div", S(1, U(1, S(2, A(2, T("b")))), T("x")), S(3, A(3, T("c"))))],
        [S(1, A(1, U(2, S(2, A(3, T("b")))), T("a")))],
        # content created / removed in the middle of the render by a task of the same or an enclosing boundary: a nested boundary or a
        # Transition that was idle gains work when the task completes, a boundary is created by it, content is removed by it
        [S(1, R(2, E("p", W(1, A(2, T("late"))))), FL(1))],
        [S(1, S(2, E("p", W(1, A(2, T("late"))))), FL(1))],
        [S(1, W(1, S(2, A(2, T("b")))), FL(1))],
        [S(1, FL(1), S(2, W(1, A(2, T("x"))), T("s")))],
        [S(1, N(1, S(2, A(2, T("b")))), FL(1), T("z"))],
        [S(1, R(2, N(1, A(2, T("gone"))), T("t")), FL(1))],
        [S(1, R(2, T("t"), W(1, R(3, A(2, T("u"))))), FL(1))],
        # Transition boundaries (a Suspense around a detached suspense scope): alone, around and inside ordinary boundaries
        [R(1, A(1, T("a")))],
        [R(1, A(1, T("x")), S(2, A(2, T("y"))))],
        [R(1, S(2, A(1, T("y"))))],
        [S(1, A(1, T("a")), R(2, A(2, T("b")), S(3, A(3, T("c")))))],
        [R(1, A(1, S(2, A(2, T("b")))))],
        [R(1, R(2, A(1, T("b"))), A(2, T("a")))],
    ]


def lenient_shapes():
    """content OUTSIDE the boundary whose task removes it, i.e. in a region the stream has already sent: what the client then shows is
    not covered by the property (the fragments cannot reach it); judged: the sync render, the blocking render in full, and for the
    stream only that it ends, never repeats a boundary and never panics"""
    T = lambda s: ("text", s)
    E = lambda t, *c: ("el", t, list(c))
    S = lambda i, *c: ("sus", i, list(c))
    A = lambda g, *c: ("async", g, list(c))
    D = lambda *c: ("dyn", list(c))
    FL = lambda g: ("flip", g)
    N = lambda g, *c: ("unless", g, list(c))
    W = lambda g, *c: ("when", g, list(c))
    return [
        # a loading boundary listed BEFORE the boundary whose task removes it
        [D(N(1, S(1, A(2, T("a"))))), S(2, FL(1), T("c"))],
        [E("div", N(1, S(1, A(2, T("a"))))), S(2, FL(1), A(3, T("c")))],
        [N(1, S(1, A(2, T("a"))), S(3, A(3, T("b")))), S(2, FL(1))],
        # ... and after it
        [S(2, FL(1), T("c")), D(N(1, S(1, A(2, T("a")))))],
        # a pending boundary replaced by another pending boundary, by its own task / by a task of a third boundary: "nothing is loading"
        # is true for a moment in the middle of the update
        [N(1, S(1, FL(1), T("a"))), W(1, S(2, A(2, T("b"))))],
        [E("div", N(1, S(1, FL(1)))), E("p", W(1, S(2, A(2, T("b"))), T("t")))],
        [W(1, S(2, A(2, T("b")))), N(1, S(1, FL(1), T("a")))],
        [S(3, FL(1)), N(1, S(1, A(3, T("a")))), W(1, S(2, A(2, T("b"))))],
        [S(2, FL(1)), N(1, S(1, S(3, A(2, T("a")))))],
    ]


def cases(tier, rng, lenient=False):
    out = []
    for vs in (lenient_shapes() if lenient else shapes()):
        gs = sorted(set(g for v in vs for g in gates(v)))
        perms = list(itertools.permutations(gs))
        if tier == "quick" and len(perms) > 6:
            perms = rng.sample(perms, 6)
        scheds = [list(p) for p in perms]
        # incomplete schedules: the last gate never opens; and a gate opened twice / an unknown gate
        if gs:
            scheds.append(list(perms[0][:-1]))
            scheds.append([gs[0]] + list(perms[-1]))
        for s in scheds:
            out.append((vs, s))
    return out


# ---- running the implementation ----
def run_impl(binp, cs):
    lines = []
    for vs, sched in cs:
        v = real_view(vs)
        for mode in ("sync", "blocking", "streaming"):
            lines.append("(suspense %s %s (%s))" % (mode, sx(v), " ".join(str(g) for g in sched)))
    rc, so, se = vlib.run_driver(binp, "\n".join(lines) + "\n", timeout=3000)
    blocks = so.rstrip("\n").split("\n==\n")
    if rc != 0 or len(blocks) != len(lines):
        raise RuntimeError("ssr-driver rc=%d blocks=%d/%d %s" % (rc, len(blocks), len(lines), se[-1500:]))
    return [tuple(blocks[3 * i + k].split("\n") for k in range(3)) for i in range(len(cs))]


def real_view(vs):
    return vs[0] if len(vs) == 1 and len(splice(vs)) == 1 else ("el", "main", vs)


def model_view(vs, sync=False):
    sp = splice(vs, sync)
    return [sp[0]] if len(vs) == 1 and len(splice(vs)) == 1 else [("el", "main", sp)]


def run_model(pid, cs, chunk=30):
    exprs = ["run_render_x_all %s" % glist(["(%s, %s)" % (glist([cqx(v) for v in vs]), glist([str(g) for g in s])) for vs, s in cs[i:i + chunk]])
             for i in range(0, len(cs), chunk)]
    outs = vlib.coq_eval(pid, PRE + "From Syc Require Import Async.StreamX.\n", exprs, per_file=max(1, (len(exprs) + 15) // 16))
    res = []
    for o in outs:
        res.extend(b.split("\n") for b in o.split("\n==\n"))
    return res


# ---- reading the real output ----
class Node:
    def __init__(self, kind, tag=None, attrs=None, text=None):
        self.kind, self.tag, self.attrs, self.text = kind, tag, dict(attrs or []), text
        self.children, self.parent = [], None

    def append(self, c):
        c.parent = self
        self.children.append(c)


class Reader(HTMLParser):
    def __init__(self):
        super().__init__(convert_charrefs=True)
        self.root = Node("root")
        self.cur = self.root

    def handle_starttag(self, tag, attrs):
        n = Node("el", tag, attrs)
        self.cur.append(n)
        self.cur = n

    def handle_endtag(self, tag):
        x = self.cur
        while x is not self.root and x.tag != tag:
            x = x.parent
        if x is not self.root:
            self.cur = x.parent

    def handle_data(self, data):
        self.cur.append(Node("text", text=data))

    def handle_comment(self, data):
        self.cur.append(Node("comment", text=data))

    def handle_decl(self, decl):
        self.cur.append(Node("doctype", text=decl))


def parse_html(s):
    r = Reader()
    r.feed(s)
    r.close()
    return r.root


HIDDEN = ("suspense-start", "suspense-end", "no-ssr", "template", "script")


def visible(n):
    if n.kind == "text":
        return n.text
    if n.kind in ("comment", "doctype"):
        return ""
    inner = "".join(visible(c) for c in n.children)
    if n.kind == "root":
        return inner
    if n.tag in HIDDEN:
        return ""
    return "<%s>%s</%s>" % (n.tag, inner, n.tag)


def find(n, tag, key):
    """document.querySelector(`tag[data-key="key"]`): template contents are not part of the document"""
    for c in n.children:
        if c.kind == "el":
            if c.tag == tag and c.attrs.get("data-key") == key:
                return c
            if c.tag != "template":
                r = find(c, tag, key)
                if r:
                    return r
    return None


def unhex(h):
    return bytes.fromhex(h).decode("utf-8", "replace")


def observe(sync_lines, blocking_lines, streaming_lines):
    """-> dict: sync visible, blocking (step, visible) or None, emissions per step (boundary ids), final visible, problems"""
    obs = {"problems": []}
    if "PANIC" in sync_lines[1:]:
        obs["problems"].append("a task of the sync render panicked")
    if sync_lines[0].startswith("sync "):
        obs["sync"] = visible(parse_html(unhex(sync_lines[0].split()[1])))
    else:
        obs["sync"] = None
        obs["problems"].append("sync render: " + sync_lines[0])
    obs["blocking"] = None
    for l in blocking_lines:
        p = l.split()
        if l == "PANIC":
            obs["problems"].append("blocking render (or one of its tasks) panicked")
        elif p[1] == "done":
            obs["blocking"] = (int(p[0]), visible(parse_html(unhex(p[2]))), unhex(p[2]))
    # streaming
    doc = None
    steps = {}
    ended = None
    keys_seen = []
    nchunks0 = 0
    for l in streaming_lines:
        if l == "PANIC":
            obs["problems"].append("streaming render (or one of its tasks) panicked")
            continue
        p = l.split()
        k = int(p[0])
        if p[1] == "end":
            ended = k
            continue
        s = unhex(p[2])
        if doc is None:
            nchunks0 += 1
            if k != 0:
                obs["problems"].append("the shell was not the first thing emitted (step %d)" % k)
            if not s.startswith("<!doctype html>") or "function __sycamore_suspense" not in s:
                obs["problems"].append("first chunk is not the shell")
            doc = parse_html(s)
            continue
        if s.startswith("<!doctype"):
            obs["problems"].append("shell emitted twice")
            continue
        frag = parse_html(s)
        tmpl = [c for c in frag.children if c.kind == "el" and c.tag == "template"]
        if len(tmpl) != 1 or not tmpl[0].attrs.get("id", "").startswith("sycamore-suspense-"):
            obs["problems"].append("chunk is not a suspense fragment: " + s[:80])
            continue
        key = tmpl[0].attrs["id"][len("sycamore-suspense-"):]
        if key in keys_seen:
            obs["problems"].append("fragment for suspense key %s emitted twice" % key)
        keys_seen.append(key)
        start, end = find(doc, "suspense-start", key), find(doc, "suspense-end", key)
        if start is None or end is None or start.parent is not end.parent:
            obs["problems"].append("fragment for suspense key %s arrived before its markers are in the document (before its parent's fragment)" % key)
            steps.setdefault(k, []).append("?" + key)
            continue
        par = start.parent
        i, j = par.children.index(start), par.children.index(end)
        fb = "".join(visible(c) for c in par.children[i + 1:j])
        bid = fb[1:] if fb.startswith("F") and fb[1:].isdigit() else "?" + key
        steps.setdefault(k, []).append(bid)
        new = list(tmpl[0].children)
        for c in new:
            c.parent = par
        par.children = par.children[:i] + new + [start] + par.children[j:]
    obs["emissions"] = steps
    obs["ended"] = ended
    obs["final"] = visible(doc) if doc is not None else None
    return obs


def model_lines(obs, sched):
    """the observation in the format of Stream.run_render (emissions sorted per step: their order inside a step is the
    executor's business; that it respects parent-first is checked on the real order by `observe`)"""
    b = obs["blocking"]
    em = obs["emissions"]
    return ["X " + (obs["sync"] if obs["sync"] is not None else "?"),
            "B %d %s" % (b[0], b[1]) if b else "B never",
            "S " + " ; ".join(" ".join(sorted(em.get(k, []), key=lambda x: (len(x), x))) for k in range(len(sched) + 1)),
            "D " + (obs["final"] if obs["final"] is not None else "?")]


def normalize_model(lines):
    out = []
    for l in lines:
        if l.startswith("S "):
            parts = l[2:].split(" ; ") if l[2:] else [""]
            out.append("S " + " ; ".join(" ".join(sorted(p.split(), key=lambda x: (len(x), x))) for p in parts))
        else:
            out.append(l)
    return out


# ---- the oracle: the property restated on the observation ----
def oracle(vs, sched, obs, lenient=False):
    fails = list(obs["problems"]) if not lenient else [p for p in obs["problems"] if "panicked" in p or "twice" in p]
    views = model_view(vs)
    want_full = "".join(full(v) for v in views)
    want_shell = "".join(shell(v) for v in model_view(vs, sync=True))
    allg = set(g for v in views for g in gates(v))
    allb = [b for v in views for b in boundary_ids(v)]
    if obs["sync"] != want_shell:
        fails.append("sync render is not the fallback content: %r, expected %r" % (obs["sync"], want_shell))
    # blocking: returns exactly when every task has finished, with every boundary resolved
    k_all = None
    for k in range(len(sched) + 1):
        if allg <= set(sched[:k]):
            k_all = k
            break
    b = obs["blocking"]
    if k_all is None:
        if b is not None:
            fails.append("blocking render returned at step %d although tasks are still pending" % b[0])
    else:
        if b is None:
            fails.append("blocking render did not return after all tasks finished (step %d)" % k_all)
        else:
            if b[0] < k_all:
                fails.append("blocking render returned at step %d, before all tasks finished (step %d)" % (b[0], k_all))
            if b[0] > k_all:
                fails.append("blocking render returned late: step %d, all tasks finished at step %d" % (b[0], k_all))
            if b[1] != want_full:
                fails.append("blocking result does not contain the resolved content of every boundary: %r, expected %r" % (b[1], want_full))
    # streaming
    em = [x for k in sorted(obs["emissions"]) for x in obs["emissions"][k]]
    for x in set(em):
        if em.count(x) > 1:
            fails.append("boundary %s streamed %d times" % (x, em.count(x)))
    if k_all is not None and lenient:
        if obs["ended"] is None:
            fails.append("the stream did not end although all tasks have finished")
    elif k_all is not None:
        missing = [str(bb) for bb in allb if str(bb) not in em]
        if missing:
            fails.append("boundaries never streamed although all tasks finished: " + " ".join(missing))
        if obs["final"] != want_full:
            fails.append("shell + fragments shows %r, the blocking result shows %r" % (obs["final"], want_full))
        if obs["ended"] is None:
            fails.append("the stream did not end after the last fragment")
    return fails
