"""Shared machinery for the reactive-runtime properties (C01 C02 C03 C04 C10 C11 C16):
scenario ASTs (python tuples), renderers to the driver's s-expressions and to Gallina,
runner for both sides, parsers of the canonical output, reference evaluators."""
import os

import vlib
from vlib import glist

FX = "false" if os.environ.get("VERIF_REACTIVE_PINNED") else "true"
FUEL = 400

# ---------------------------------------------------------------------------------------
# AST: expr = ("lit", z) | ("get", x) | ("getu", x) | ("add", a, b) | ("sub", a, b) | ("mul", a, b)
#           | ("lt", a, b) | ("eq", a, b) | ("mod", a, k) | ("ite", c, a, b) | ("alive", x) | ("cell", c)
# stmt = ("signal", x, e) | ("memo", x, body) | ("selector", x, k, body) | ("effect", x, body)
#      | ("scope", x, ss) | ("curscope", x) | ("set", x, e) | ("setsilent", x, e) | ("dispose", x)
#      | ("batch", ss) | ("untrack", ss) | ("component", ss) | ("oncleanup", l, ss) | ("provide", ty, e)
#      | ("usectx", ty) | ("runin", x, ss) | ("track", x) | ("if", e, ss, ss) | ("cellnew", c, e)
#      | ("cellset", c, e) | ("log", e)
#      | ("providein", x, ty, ("lit", v), ss)   provide_context_in_new_scope; for the model: a scope x that first provides
# body = ("body", None | [x..], ss, e)

def sx_expr(e):
    k = e[0]
    if k in ("lit", "get", "getu", "alive", "cell"):
        return "(%s %d)" % (k, e[1])
    if k == "mod":
        return "(mod %s %d)" % (sx_expr(e[1]), e[2])
    return "(%s %s)" % (k, " ".join(sx_expr(a) for a in e[1:]))


def sx_body(b):
    on = "none" if b[1] is None else "(on %s)" % " ".join(str(x) for x in b[1])
    return "(body %s %s %s)" % (on, sx_stmts(b[2]), sx_expr(b[3]))


def sx_stmts(ss):
    return "(" + " ".join(sx_stmt(s) for s in ss) + ")"


def sx_stmt(s):
    k = s[0]
    if k in ("signal", "set", "setsilent", "provide", "cellnew", "cellset"):
        return "(%s %d %s)" % (k, s[1], sx_expr(s[2]))
    if k in ("memo", "effect"):
        return "(%s %d %s)" % (k, s[1], sx_body(s[2]))
    if k == "selector":
        return "(selector %d %d %s)" % (s[1], s[2], sx_body(s[3]))
    if k in ("scope", "oncleanup", "runin"):
        return "(%s %d %s)" % (k, s[1], sx_stmts(s[2]))
    if k == "providein":
        return "(providein %d %d %s %s)" % (s[1], s[2], sx_expr(s[3]), sx_stmts(s[4]))
    if k in ("curscope", "dispose", "usectx", "track"):
        return "(%s %d)" % (k, s[1])
    if k in ("batch", "untrack", "component"):
        return "(%s %s)" % (k, sx_stmts(s[1]))
    if k == "if":
        return "(if %s %s %s)" % (sx_expr(s[1]), sx_stmts(s[2]), sx_stmts(s[3]))
    if k == "log":
        return "(log %s)" % sx_expr(s[1])
    raise ValueError(s)


def cq_z(z):
    return "(%d)" % z


def cq_expr(e):
    k = e[0]
    if k == "lit":
        return "(Lit %s)" % cq_z(e[1])
    if k in ("get", "getu", "alive"):
        return "(%s %d)" % ({"get": "Get", "getu": "GetU", "alive": "Alive"}[k], e[1])
    if k == "cell":
        return "(CellGet %d)" % e[1]
    if k == "mod":
        return "(Mod %s %s)" % (cq_expr(e[1]), cq_z(e[2]))
    name = {"add": "Add", "sub": "Sub", "mul": "Mul", "lt": "Lt", "eq": "Eq", "ite": "Ite"}[k]
    return "(%s %s)" % (name, " ".join(cq_expr(a) for a in e[1:]))


def cq_body(b):
    on = "None" if b[1] is None else "(Some (%s%%nat))" % glist([str(x) for x in b[1]])
    return "(Body %s %s %s)" % (on, cq_stmts(b[2]), cq_expr(b[3]))


def cq_stmts(ss):
    return glist([cq_stmt(s) for s in ss])


def cq_stmt(s):
    k = s[0]
    n1 = {"signal": "SSignal", "set": "SSet", "setsilent": "SSetSilent", "provide": "SProvide",
          "cellnew": "SCellNew", "cellset": "SCellSet"}
    if k in n1:
        return "%s %d %s" % (n1[k], s[1], cq_expr(s[2]))
    if k == "memo":
        return "SMemo %d %s" % (s[1], cq_body(s[2]))
    if k == "effect":
        return "SEffect %d %s" % (s[1], cq_body(s[2]))
    if k == "selector":
        return "SSelector %d %s %s" % (s[1], cq_z(s[2]), cq_body(s[3]))
    if k == "providein":
        return "SScope %d %s" % (s[1], cq_stmts([("provide", s[2], s[3])] + s[4]))
    n2 = {"scope": "SScope", "oncleanup": "SOnCleanup", "runin": "SRunIn"}
    if k in n2:
        return "%s %d %s" % (n2[k], s[1], cq_stmts(s[2]))
    n3 = {"curscope": "SCurScope", "dispose": "SDispose", "usectx": "SUseCtx", "track": "STrack"}
    if k in n3:
        return "%s %d" % (n3[k], s[1])
    n4 = {"batch": "SBatch", "untrack": "SUntrack", "component": "SComponent"}
    if k in n4:
        return "%s %s" % (n4[k], cq_stmts(s[1]))
    if k == "if":
        return "SIf %s %s %s" % (cq_expr(s[1]), cq_stmts(s[2]), cq_stmts(s[3]))
    if k == "log":
        return "SLog %s" % cq_expr(s[1])
    raise ValueError(s)


# ---------------------------------------------------------------------------------------
# running both sides

PRE = ("From Coq Require Import List ZArith String.\n"
       "From Syc Require Import Reactive.Syntax Reactive.Interp Reactive.Show.\n"
       "Import ListNotations.\nOpen Scope Z_scope.\n")


def build_driver(chk):
    okb, out, binp = vlib.cargo_build("reactive-driver")
    chk.obligation("cargo build reactive-driver against /repo (feature verif)", okb, out)
    return binp if okb else None


class ViaForeign(list):
    """a program whose `batch` and `untrack` statements the driver enters from inside a second, unrelated root (`@F` scenario): the
    body returns to where it was through a handle of the current scope. For the model -- and for the property -- nothing changes"""


def run_impl(binp, scenarios):
    text = "\n".join(("@F " if isinstance(s, ViaForeign) else "") + sx_stmts(s) for s in scenarios) + "\n"
    rc, so, se = vlib.run_driver(binp, text, timeout=3000)
    if rc != 0:
        raise RuntimeError("reactive-driver failed rc=%d: %s" % (rc, se[-2000:]))
    blocks = so.rstrip("\n").split("\n==\n") if so.strip() else []
    if len(blocks) != len(scenarios):
        raise RuntimeError("driver produced %d blocks for %d scenarios" % (len(blocks), len(scenarios)))
    return [b.split("\n") for b in blocks]


def normalize_impl(lines):
    """drop the driver-only trailing field (specification-level tracking flag) of read / track lines and the driver-only write lines"""
    out = []
    for l in lines:
        if l.startswith("write ") or l.startswith("disp ") or l.startswith("dispend "):        # driver-only: the position of a notifying write / of a disposal inside the statement
            continue
        if l.startswith("read ") or l.startswith("track "):
            l = l.rsplit(" ", 1)[0]
        out.append(l)
    return out


def run_model(pid, scenarios, chunk=20, nfiles=32):
    exprs = []
    for i in range(0, len(scenarios), chunk):
        exprs.append("run_scenarios %s %d %s" % (FX, FUEL, glist([cq_stmts(s) for s in scenarios[i:i + chunk]])))
    per_file = max(1, (len(exprs) + nfiles - 1) // nfiles)
    outs = vlib.coq_eval(pid, PRE, exprs, per_file=per_file)
    res = []
    for o, i in zip(outs, range(0, len(scenarios), chunk)):
        n = len(scenarios[i:i + chunk])
        blocks = o.split("\n==\n")
        if len(blocks) != n:
            raise RuntimeError("model produced %d blocks for %d scenarios" % (len(blocks), n))
        res.extend(b.split("\n") for b in blocks)
    return res


# ---------------------------------------------------------------------------------------
# parsing the canonical output

def parse_snap(line):
    """'snap n=4 | 0:1:0:d=[]:s=0/0:0 | 3:0' -> {"n": 4, "nodes": {name: {...}}}"""
    parts = line.split(" | ")
    head = dict(kv.split("=") for kv in parts[0].split(" ")[1:])
    n = int(head["n"])
    nodes = {}
    for p in parts[1:]:
        f = p.split(":")
        name = int(f[0])
        if f[1] == "0":
            nodes[name] = {"alive": False}
        else:
            deps = f[3][3:-1]
            sl, sd = f[4][2:].split("/")
            nodes[name] = {"alive": True, "value": None if f[2] == "-" else int(f[2]),
                           "deps": [d for d in deps.split(",") if d], "dependents": int(sl), "dead_dependents": int(sd),
                           "dirty": f[5] == "1"}
    return {"n": n, "r": int(head.get("r", n)), "nodes": nodes}


def split_root(lines):
    """-> (lines of the statements, events during the final RootHandle::dispose, its status 'ok' / 'panic <class>') ; (lines, None, None)
    if the driver printed no such block"""
    if "rootdispose" in lines:
        i = len(lines) - 1 - lines[::-1].index("rootdispose")
        tail = lines[i + 1:]
        if tail and tail[-1].startswith("rootdisposed "):
            status = tail[-1][len("rootdisposed "):]
            return lines[:i], tail[:-1], status
    return lines, None, None


def split_steps(lines):
    """group observation lines per top-level statement: list of {"events": [...], "snap": dict|None, "panic": str|None}"""
    steps = []
    cur = []
    for l in lines:
        if l.startswith("snap "):
            steps.append({"events": cur, "snap": parse_snap(l), "panic": None})
            cur = []
        elif l.startswith("panic "):
            steps.append({"events": cur, "snap": None, "panic": l[6:]})
            cur = []
        else:
            cur.append(l)
    return steps


# ---------------------------------------------------------------------------------------
# reference evaluation of pure expressions over a snapshot (for the C01/C02 oracles)

class Undefined(Exception):
    pass


def ref_eval(e, val):
    """evaluate a pure expression; val(name) -> value or raises Undefined; returns (value, set of names read)"""
    k = e[0]
    if k == "lit":
        return e[1], set()
    if k in ("get", "getu"):
        return val(e[1]), {e[1]}
    if k in ("add", "sub", "mul", "lt", "eq"):
        a, ra = ref_eval(e[1], val)
        b, rb = ref_eval(e[2], val)
        v = {"add": a + b, "sub": a - b, "mul": a * b, "lt": int(a < b), "eq": int(a == b)}[k]
        return v, ra | rb
    if k == "mod":
        a, ra = ref_eval(e[1], val)
        return a % e[2], ra
    if k == "ite":
        c, rc = ref_eval(e[1], val)
        v, r = ref_eval(e[2] if c != 0 else e[3], val)
        return v, rc | r
    raise Undefined(k)


def tracked_only(e):
    k = e[0]
    if k == "lit":
        return True
    if k == "get":
        return True
    if k in ("getu", "alive", "cell"):
        return False
    if k == "mod":
        return tracked_only(e[1])
    return all(tracked_only(a) for a in e[1:])


def computations(ss, acc=None, depth=0):
    """all computation-creating statements in a program: name -> (kind, k, body, depth)"""
    if acc is None:
        acc = {}
    for s in ss:
        k = s[0]
        if k == "memo":
            acc[s[1]] = ("memo", 0, s[2], depth)
            computations(s[2][2], acc, depth + 1)
        elif k == "effect":
            acc[s[1]] = ("effect", 0, s[2], depth)
            computations(s[2][2], acc, depth + 1)
        elif k == "selector":
            acc[s[1]] = ("selector", s[2], s[3], depth)
            computations(s[3][2], acc, depth + 1)
        elif k in ("scope", "oncleanup", "runin"):
            computations(s[2], acc, depth + (1 if k == "oncleanup" else 0))
        elif k == "providein":
            computations(s[4], acc, depth)
        elif k in ("batch", "untrack", "component"):
            computations(s[1], acc, depth)
        elif k == "if":
            computations(s[2], acc, depth)
            computations(s[3], acc, depth)
    return acc


def program_size(ss):
    n = 0
    for s in ss:
        n += 1
        for a in s[1:]:
            if isinstance(a, list):
                n += program_size(a)
            elif isinstance(a, tuple) and a and a[0] == "body":
                n += program_size(a[2])
    return n
