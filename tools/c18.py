"""C18 -- view! never treats a reactive interpolation as static (DESIGN.md section 5.C18)."""
import itertools
import os
import random
import re

import vlib
import c18_translate
from vlib import glist

PID = "C18"
THEOREMS = ["C18_is_dyn_conservative", "C18_static_is_eval_free", "C18_codegen_wraps", "C18_pinned_refuted"]

# expression atoms: (source, contains an evaluation outside closures?)
ATOMS = ["x", "1", "a::B", "f()", "x.m()", "m!()", "view! { div {} }", "x.await", "x?", "(x = 1)",
         "|| f()", "|a| a.get()",
         # method calls that LOOK like plain conversions: the macro sees syntax, not types (a signal's Display / Clone reads it)
         "x.to_string()", "x.clone()", "a.b.clone()", "x.as_str()", "x.to_owned()", "x.as_ref()", "x.len()", "x.clone::<T>()", "x.get()"]
EVAL_ATOMS = ["f()", "x.m()", "m!()", "x.await", "x?", "(x = 1)", "x.to_string()", "x.clone()", "a.b.as_ref()", "x.to_owned()", "x.get()"]
# expression templates: {0} {1} {2} expression holes, {P} pattern hole
ETEMPL = [
    "[{0}, {1}]", "({0}, {1})", "[{0}; {1}]", "{0}.field", "{0}.0", "({0})", "{0} as T", "{{ {0} }}", "'l: {{ {0} }}",
    "{{ let {P} = {0}; {1} }}", "{{ let {P} = {0} else {{ {1} }}; 1 }}", "{{ let {P}: T = {0}; 2 }}", "{{ let {P}; 1 }}",
    "loop {{ {0}; }}", "loop {{ break {0}; }}", "'a: loop {{ break 'a {0}; }}", "loop {{ if {0} {{ break; }} continue; }}",
    "while {0} {{ {1}; }}", "while let {P} = {0} {{ {1}; }}", "for {P} in {0} {{ {1}; }}",
    "if {0} {{ {1} }} else {{ {2} }}", "if {0} {{ {1} }}", "if let {P} = {0} {{ {1} }} else if {2} {{ 1 }} else {{ 2 }}",
    "match {0} {{ {P} => {1}, _ if {2} => 3, _ => 4 }}", "match {0} {{ {P} if {1} => {2}, }}",
    "-{0}", "!{0}", "*{0}", "{0} + {1}", "{0} && {1}", "{0} == {1}", "{0} += {1}", "{0}[{1}]",
    "{0}..{1}", "..{0}", "{0}..", "{0}..={1}", "S {{ a: {0}, ..{1} }}", "S {{ a: {0}, b: {1} }}", "S {{ ..{0} }}",
    "&{0}", "&mut {0}", "return {0}", "unsafe {{ {0} }}", "async {{ {0} }}", "async move {{ {0} }}", "const {{ {0} }}",
    "{0}({1})", "{0}.m({1})", "{0}.to_string()", "{0}.clone()", "{0}.await", "{0}?", "({0} = {1})", "|| {0}", "|{P}| {0}", "move |a| {0}" if False else "|a| {0}",
    "{{ fn g() {{ {0}; }} 1 }}", "{{ m!(); {0} }}", "{{ view! {{ }}; {0} }}", "{{ {0}; {1} }}", "{{ ; {0} }}",
    "{0} as usize + {1}", "x.y.z[{0}].w", "({0},)", "[{0}]", "if {0} {{ }} else if {1} {{ }} else {{ {2} }}",
]
PATOMS = ["_", "x", "1", "A::B", "..", "ref mut x", "mut y", "ref z", "m!()", "view!()", "const {{ 1 }}", "1..=2", "'a'..='z'"]
PTEMPL = ["x @ {P}", "({P}, {P})", "A({P})", "[{P}, {P}]", "A {{ f: {P} }}", "A {{ f: {P}, .. }}", "{P} | {P}", "({P})",
          "&{P}", "&mut {P}", "&&{P}", "ref mut q @ {P}"]


def fill_pat(rng, depth, force_macro=None):
    """a pattern source; force_macro: place `m!()` (or view!()) somewhere inside"""
    if depth == 0:
        if force_macro:
            return force_macro
        return rng.choice(PATOMS).replace("{{", "{").replace("}}", "}")
    t = rng.choice(PTEMPL)
    n = t.count("{P}")
    where = rng.randrange(n)
    parts = []
    for i in range(n):
        parts.append(fill_pat(rng, depth - 1 if i == where else 0, force_macro if i == where else None))
    out = t
    for p in parts:
        out = out.replace("{P}", p, 1)
    return out.replace("{{", "{").replace("}}", "}")


def instantiate(t, exprs, pat):
    s = t.replace("{P}", "\0")
    s = s.format(*exprs)
    return s.replace("\0", pat)


def nholes(t):
    return len(set(re.findall(r"\{(\d)\}", t)))


def generate(tier, rng):
    cases = []
    seen = set()

    def add(s):
        if s not in seen:
            seen.add(s)
            cases.append(s)

    # corpus: the four witnesses of the pinned defects, plus look-alikes that must stay static
    for s in ["Foo { a: 1, ..make() }", "loop { break f(); }", "match x { &m!() => 1, _ => 2 }",
              "{ let m!(): T = 1; 2 }", "'a: loop { break 'a g(); }", "x", "f()", "|| f()", "view! { div {} }"]:
        add(s)
    for a in ATOMS:
        add(a)
    pats_plain = ["x", "_", "A(y)"]
    # depth 1: every template, every hole filled with every atom (others `x`), and all pairs for 2-hole templates
    for t in ETEMPL:
        n = nholes(t)
        haspat = "{P}" in t
        plist = pats_plain + (["m!()", "&m!()", "(a, &m!())", "A { f: m!() }", "view!()", "ref mut q", "1..=2", "const { f() }"] if haspat else [])
        if n == 0:
            for p in plist:
                add(instantiate(t, [], p))
        for h in range(n):
            for a in ATOMS:
                ex = ["x"] * 3
                ex[h] = a
                add(instantiate(t, ex, "x"))
        if n == 2:
            for a, b in itertools.product(ATOMS, repeat=2):
                add(instantiate(t, [a, b, "x"], "x"))
        if haspat:
            for p in plist:
                add(instantiate(t, ["x", "y", "z"], p))
            for _ in range(6 if tier == "quick" else 40):
                add(instantiate(t, ["x", "y", "z"], fill_pat(rng, rng.randint(1, 3), rng.choice([None, "m!()", "m!()", "view!()"]))))
    # depth 2 (and 3 in thorough): template inside template, one evaluation atom somewhere
    n2 = 4000 if tier == "quick" else 60000
    for _ in range(n2):
        depth = rng.choice([2, 2, 3]) if tier == "thorough" else 2
        add(build(rng, depth, rng.random() < 0.7))
    return cases


def build(rng, depth, want_eval):
    if depth == 0:
        return rng.choice(EVAL_ATOMS) if want_eval else rng.choice(["x", "1", "a::B", "|| f()", "view! { div {} }", "|a| a.get()"])
    t = rng.choice(ETEMPL)
    n = nholes(t)
    where = rng.randrange(n) if n else -1
    ex = []
    for i in range(3):
        if i == where:
            ex.append(build(rng, depth - 1, want_eval))
        else:
            ex.append(rng.choice(["x", "1", "y"]))
    p = "x"
    if "{P}" in t:
        p = fill_pat(rng, rng.randint(0, 2), "m!()" if (want_eval and rng.random() < 0.3) else None)
    return instantiate(t, ex, p)


# ---- trees

def parse_tree(s):
    """(Tag [c c] [c]) -> (tag, [[children]])"""
    pos = [0]

    def node():
        assert s[pos[0]] == "(", s[pos[0]:pos[0] + 20]
        pos[0] += 1
        j = pos[0]
        while s[j] not in " )":
            j += 1
        tag = s[pos[0]:j]
        pos[0] = j
        slots = []
        while s[pos[0]] == " ":
            pos[0] += 1
            assert s[pos[0]] == "["
            pos[0] += 1
            ch = []
            while s[pos[0]] != "]":
                if s[pos[0]] == " ":
                    pos[0] += 1
                    continue
                ch.append(node())
            pos[0] += 1
            slots.append(ch)
        assert s[pos[0]] == ")"
        pos[0] += 1
        return (tag, slots)

    return node()


def coq_tree(t):
    return "Node %s %s" % (t[0], glist([glist(["(" + coq_tree(c) + ")" for c in sl]) for sl in t[1]]))


EVAL_TAGS = {"ECall", "EMethodCall", "EMacroOther", "EAwait", "ETry", "EAssign", "PMacroOther", "SMacroOther"}
OPAQUE_TAGS = {"EClosure", "EConst", "PConst", "SItem"}


def contains_eval(t):
    """oracle, from the property text: call / method call / non-view macro / await / try / assignment
    outside closures (const blocks and nested items are compile-time, hence opaque as well)"""
    if t[0] in EVAL_TAGS:
        return True
    if t[0] in OPAQUE_TAGS:
        return False
    return any(contains_eval(c) for sl in t[1] for c in sl)


def size(t):
    return 1 + sum(size(c) for sl in t[1] for c in sl)


def main(argv):
    a, seed = vlib.args(argv)
    chk = vlib.Check(PID, a.tier, seed, "proof")
    rng = random.Random(seed * 104729 + 18)
    chk.trusted = [
        "Coq 8.16.1 kernel + vm_compute", "tools/c18_translate.py (translator codegen.rs -> Gen/C18Table.v)",
        "harness/macro-driver (syn AST -> tagged tree conversion, detection of `from_dynamic` / `move ||` in the emitted tokens)",
        "tools/c18.py (generators, python oracle)", "syn's parser (real, not modelled)",
    ]
    chk.assumptions = ["const { } blocks and nested items are opaque like closures (compile-time); compound assignment is a binary operator"]
    chk.rule = ("grammar enumeration: every expression template x every atom in every hole (all pairs for 2-hole templates), "
                "pattern templates with a macro placed at depth <= 3, random nestings of depth 2 (3 in thorough); each source "
                "goes through the real syn parser, the real view parser and Codegen in child and 4 attribute positions; "
                "non-trivial = tree size >= 3 and (contains an evaluation, or is classified static); distinct = distinct source text")

    broken = []
    # 1. translator: regenerate the table from the current source
    gen_path = os.path.join(vlib.COQ, "theories", "Gen", "C18Table.v")
    try:
        text = c18_translate.render(c18_translate.translate())
        if not os.path.exists(gen_path) or open(gen_path).read() != text:
            open(gen_path, "w").write(text)
        chk.obligation("translator codegen.rs -> Gen/C18Table.v", True)
        table_ok = True
    except c18_translate.TranslateError as e:
        chk.obligation("translator codegen.rs -> Gen/C18Table.v", False, str(e))
        broken.append("translator: " + str(e))
        table_ok = False

    # 2. proof step
    ok, msg = vlib.proof_step(chk, "C18", ["theories/Props/C18.vo", "theories/ViewMacro/Show.vo"], THEOREMS)
    if not ok:
        broken.append("theorem: " + msg)

    # 3. driver
    okb, out, binp = vlib.cargo_build("macro-driver")
    chk.obligation("cargo build macro-driver against /repo", okb, out)
    if not okb:
        chk.violation({"property": PID, "broken": "harness build", "output": out[-3000:]}, no_input=True)
        return chk.finish()
    srcs = generate(a.tier, rng)
    rc, so, se = vlib.run_driver(binp, "\n".join(srcs) + "\n")
    lines = so.split("\n")[:-1]
    if rc != 0 or len(lines) != len(srcs):
        chk.violation({"property": PID, "broken": "driver run", "rc": rc, "stderr": se[-2000:]}, no_input=True)
        return chk.finish()
    cases = []
    errs = 0
    for src, line in zip(srcs, lines):
        if not line.startswith("OK "):
            errs += 1
            continue
        parts = line.split(" ", 6)
        flags = [p == "1" for p in parts[1:6]]
        cases.append((src, flags, parse_tree(parts[6])))
    chk.cov["parse_errors_skipped"] = errs

    # 4. oracle on the implementation's own classification
    orfail = []
    for src, flags, tree in cases:
        ev = contains_eval(tree)
        # attribute positions wrap the value in parentheses: Expr::Paren(tree)
        nontrivial = size(tree) >= 3 and (ev or not flags[0])
        chk.note_case(src, nontrivial)
        if ev and not all(flags):
            orfail.append({"source": src, "tree": tree_str(tree),
                           "emitted_static_in": [n for n, f in zip(["child", "attr", "prop:", "hyphenated attr", "quoted attr"], flags) if not f]})
        if len(set(flags)) != 1:
            orfail.append({"source": src, "positions_disagree": flags})
    chk.obligation("oracle: every expression containing an evaluation is emitted as a closure (%d cases)" % len(cases),
                   not orfail, str(orfail[:3]))

    # 5. model vs implementation (only if the table could be regenerated and the model compiles)
    mism = []
    if table_ok:
        ok2, out2 = vlib.coq_make(["theories/ViewMacro/Show.vo"])
        if ok2:
            pre = ("From Coq Require Import List String.\nFrom Syc Require Import ViewMacro.Syntax ViewMacro.Show.\n"
                   "Import ListNotations.\n")
            per = (len(cases) + 15) // 16
            exprs = ["run %s" % glist(["(" + coq_tree(t) + ")" for _, _, t in cases[i:i + per]])
                     for i in range(0, len(cases), per)]
            try:
                outs = vlib.coq_eval(PID, pre, exprs)
                model = [l for o in outs for l in o.split("\n")]
                for (src, flags, tree), m in zip(cases, model):
                    if (m[0] == "1") != flags[0]:
                        mism.append({"source": src, "impl_dynamic": flags[0], "model_dynamic": m[0] == "1"})
                    if (m[1] == "1") != contains_eval(tree):
                        mism.append({"source": src, "oracle_vs_gallina_spec": [contains_eval(tree), m[1]]})
                    if m[2] != "1":
                        mism.append({"source": src, "ill_formed_tree": tree_str(tree)})
                chk.traces = len(cases)
                chk.obligation("correspondence: classify dyn_rule = real Codegen on %d cases" % len(cases), not mism, str(mism[:3]))
            except RuntimeError as e:
                broken.append("model evaluation: " + str(e)[-500:])
                chk.obligation("model evaluation", False, str(e))
        else:
            broken.append("model does not compile: " + out2[-500:])
    dist = {}
    for _, flags, tree in cases:
        k = ("eval" if contains_eval(tree) else "noeval") + "/" + ("dynamic" if flags[0] else "static")
        dist[k] = dist.get(k, 0) + 1
    chk.cov["distribution"] = dist
    chk.cov["root_tags"] = len(set(t[0] for _, _, t in cases))
    for i in (0, 3, len(cases) // 2, len(cases) - 1):
        chk.sample({"source": cases[i][0], "emitted_dynamic": cases[i][1][0], "contains_eval": contains_eval(cases[i][2])})

    if orfail:
        orfail.sort(key=lambda o: len(o.get("source", "")))
        chk.violation({"property": PID, "kind": "oracle failure on implementation output", "input": orfail[0],
                       "more": orfail[1:6], "count": len(orfail), "also_broken": broken})
    elif mism or broken:
        chk.violation({"property": PID, "kind": "proof/translator/correspondence broken, oracle clean on all inputs explored",
                       "broken": broken, "first_mismatches": mism[:5]}, no_input=True)
    return chk.finish()


def tree_str(t):
    return "(%s%s)" % (t[0], "".join(" [" + " ".join(tree_str(c) for c in sl) + "]" for sl in t[1]))
