"""C16 -- context lookup is lexical over the scope tree (DESIGN.md 5.C16)."""
import rcheck
import reactive_gen

PID = "C16"
FEATS = {"selector": 0.3, "effect": 1.5, "nested": 0.5, "scope": 2.5, "context": 3, "runin": 1.5, "runin_op": 1, "curscope": 0.4,
         "dispose": 0.5, "ctx_in_callback": 0.5, "root_handle": 1, "late_create": 1, "cleanup": 0.1}


class TreeGen:
    """scope trees of depth <= 4 with provisions of 3 types, lookups from every scope, run_in, effects re-run later"""

    def __init__(self, rng):
        self.r = rng
        self.x = 1
        self.handles = [0]

    def fresh(self):
        self.x += 1
        return self.x

    def block(self, depth, provided, in_effect=False):
        r = self.r
        ss = []
        provided = set(provided)
        for _ in range(r.randint(2, 5)):
            c = r.random()
            if c < 0.28:
                ty = r.randint(0, 2)
                if ty in provided and r.random() < 0.9:
                    continue            # a duplicate provision panics; generated rarely
                provided.add(ty)
                ss.append(("provide", ty, ("lit", r.randint(1, 9))))
            elif c < 0.6:
                ss.append(("usectx", r.randint(0, 2)))
            elif c < 0.8 and depth > 0:
                x = self.fresh()
                if r.random() < 0.3:
                    # provide_context_in_new_scope: visible inside the body only
                    ss.append(("providein", x, r.randint(0, 2), ("lit", r.randint(1, 9)), self.block(depth - 1, set())))
                else:
                    ss.append(("scope", x, self.block(depth - 1, set())))
                self.handles.append(x)
            elif c < 0.9 and depth > 0 and not in_effect:
                x = self.fresh()
                ss.append(("effect", x, ("body", None, self.block(depth - 1, set(), True), ("get", 1))))
            elif self.handles:
                ss.append(("runin", r.choice(self.handles), [("usectx", r.randint(0, 2)), ("usectx", r.randint(0, 2))]))
        return ss

    def program(self):
        prog = [("signal", 1, ("lit", 0))] + self.block(3, set())
        for _ in range(self.r.randint(0, 2)):
            prog.append(("set", 1, ("lit", self.r.randint(1, 5))))
        for _ in range(self.r.randint(0, 2)):
            if self.handles:
                prog.append(("runin", self.r.choice(self.handles), [("usectx", 0), ("usectx", 1), ("usectx", 2)]))
        return prog


class Ref:
    """reference walk over the program's scope tree; which effects re-run on a write is read off the implementation's log"""

    def __init__(self):
        self.nodes = {0: {"parent": None, "ctx": {}, "alive": True}}
        self.fresh = 1000
        self.out = []
        self.effects = {}

    def new(self, parent):
        self.fresh += 1
        self.nodes[self.fresh] = {"parent": parent, "ctx": {}, "alive": True}
        return self.fresh

    def lookup(self, cur, ty):
        while cur is not None:
            n = self.nodes[cur]
            if ty in n["ctx"]:
                return n["ctx"][ty]
            cur = n["parent"]
        return None

    def block(self, ss, cur, env):
        env = dict(env)
        for s in ss:
            k = s[0]
            if k == "provide":
                if s[1] in self.nodes[cur]["ctx"]:
                    raise DupCtx()
                self.nodes[cur]["ctx"][s[1]] = s[2][1]
            elif k == "usectx":
                self.out.append((s[1], self.lookup(cur, s[1])))
            elif k == "scope":
                n = self.new(cur)
                self.block(s[2], n, env)
                env[s[1]] = n
            elif k == "providein":
                n = self.new(cur)
                self.nodes[n]["ctx"][s[2]] = s[3][1]
                self.block(s[4], n, env)
                env[s[1]] = n
            elif k == "effect":
                n = self.new(cur)
                self.effects[s[1]] = (n, s[2][2], dict(env))
                self.block(s[2][2], n, env)
                env[s[1]] = n
            elif k == "runin":
                self.block(s[2], env[s[1]], env)
            elif k in ("signal", "set"):
                pass
            else:
                raise Unsupported(k)
        return env

    def rerun(self, name):
        n, body, env = self.effects[name]
        self.nodes[n]["ctx"] = {}
        self.block(body, n, env)


class DupCtx(Exception):
    pass


class Unsupported(Exception):
    pass


def oracle(prog, steps):
    ref = Ref()
    env = {0: 0}
    fails = []
    for k, st in enumerate(steps):
        if k >= len(prog):
            break
        ref.out = []
        expect_panic = None
        try:
            if prog[k][0] == "set":
                for r, d in zip(rcheck.run_spans(st["events"]), rcheck.span_depths(rcheck.run_spans(st["events"]))):
                    if d == 0 and r["name"] in ref.effects:
                        ref.rerun(r["name"])
            else:
                env = ref.block([prog[k]], 0, env)
        except DupCtx:
            expect_panic = "dup-context"
        except (Unsupported, KeyError):
            return fails      # outside the vocabulary of the reference walk (random family): model-vs-code only
        got = []
        for l in st["events"]:
            f = l.split(" ")
            if f[0] == "ctx":
                got.append((int(f[1]), None if f[2] == "none" else int(f[2])))
        if expect_panic:
            if st["panic"] != expect_panic:
                fails.append({"oracle": "duplicate-provision-panics", "step": k, "got": st["panic"], "known": None})
            break
        if st["panic"]:
            fails.append({"oracle": "no-panic-expected", "step": k, "got": st["panic"], "known": None})
            break
        if got != ref.out:
            fails.append({"oracle": "nearest-enclosing-provision", "step": k, "expected": ref.out, "got": got, "known": None})
            break
    return fails


def lexical_expectations(prog):
    """static reading of 'lexical': for every marked lookup -- (log K) with K >= 1000 directly followed by (usectx ty) -- the value
    provided by the nearest enclosing block (scope / computation body; run_in: the target scope's chain), from the program text
    alone. Sound for programs whose provisions are unconditional and precede the lookups and blocks they are compared with, and whose
    lookups run in live scopes (the self-disposal family below is built that way)."""
    exp, scopes = {}, {}

    def find(chain, ty):
        for fr in reversed(chain):
            if ty in fr:
                return fr[ty]
        return None

    def walk(ss, chain):
        for i, s in enumerate(ss):
            k = s[0]
            if k == "provide":
                chain[-1][s[1]] = s[2][1]
            elif k == "log" and s[1][0] == "lit" and s[1][1] >= 1000 and i + 1 < len(ss) and ss[i + 1][0] == "usectx":
                exp[s[1][1]] = (ss[i + 1][1], find(chain, ss[i + 1][1]))
            elif k == "scope":
                c2 = chain + [{}]
                scopes[s[1]] = c2
                walk(s[2], c2)
            elif k in ("effect", "memo"):
                walk(s[2][2], chain + [{}])
            elif k == "providein":
                c2 = chain + [{s[2]: s[3][1]}]
                scopes[s[1]] = c2
                walk(s[4], c2)
            elif k == "if":
                walk(s[2], chain)
                walk(s[3], chain)
            elif k == "batch":
                walk(s[1], chain)
            elif k == "runin" and s[1] in scopes:
                walk(s[2], scopes[s[1]])
    root = [{}]
    scopes[0] = root
    walk(prog, root)
    return exp


def lexical_failures(prog, steps):
    exp = lexical_expectations(prog)
    fails = []
    if not exp:
        return fails
    for k, st in enumerate(steps):
        ev = st["events"]
        for i, l in enumerate(ev):
            if l.startswith("log ") and int(l.split(" ")[1]) in exp:
                ty, v = exp[int(l.split(" ")[1])]
                want = "ctx %d %s" % (ty, "none" if v is None else v)
                got = ev[i + 1] if i + 1 < len(ev) else "(nothing)"
                if got != want:
                    fails.append({"oracle": "lookup-is-lexical", "step": k, "marker": int(l.split(" ")[1]), "expected": want, "got": got,
                                  "known": None})
        if st["panic"]:
            fails.append({"oracle": "no-panic-expected", "step": k, "got": st["panic"], "known": None})
            break
    return fails


def self_disposal():
    """a computation D whose RE-RUN disposes a scope that owns D, the re-run being nested in other code (another computation's run,
    run_in, a batch inside those, the top level), which then looks contexts up and provides one: the lookups are lexically in the
    outer code's scope, whatever D did"""
    out = []
    for dk in ("effect", "memo"):
        for d_on in (False, True):
            for deep in (False, True):
                for ctrl in ("effect", "memo", "runin", "runin-batch", "top", "effect-batch"):
                    cond = ("lt", ("lit", 0), ("getu", 2) if d_on else ("get", 2))
                    d = (dk, 10, ("body", [2] if d_on else None, [("if", cond, [("dispose", 7)], [])], ("lit", 0)))
                    inner = [("scope", 8, [("provide", 2, ("lit", 6)), d])] if deep else [d]
                    dialog = ("scope", 6, [("curscope", 7), ("provide", 1, ("lit", 5))] + inner)
                    close = ("set", 2, ("lit", 1))
                    looks = [("log", ("lit", 1001)), ("usectx", 0), ("log", ("lit", 1002)), ("usectx", 1), ("log", ("lit", 1003)), ("usectx", 2)]
                    after = [("log", ("lit", 1004)), ("usectx", 0), ("log", ("lit", 1005)), ("usectx", 1), ("provide", 3, ("lit", 9)),
                             ("log", ("lit", 1006)), ("usectx", 3)]
                    act = looks + [("batch", [close]) if "batch" in ctrl else close] + after
                    panel = [("provide", 0, ("lit", 2)), ("provide", 1, ("lit", 3)), dialog]
                    tail = []
                    if ctrl.startswith("effect") or ctrl == "memo":
                        panel.append(("memo" if ctrl == "memo" else "effect", 11,
                                      ("body", None, [("if", ("lt", ("lit", 0), ("get", 1)), act, [])], ("get", 1))))
                        tail = [("set", 1, ("lit", 1)), ("set", 1, ("lit", 2))]
                    elif ctrl.startswith("runin"):
                        tail = [("runin", 5, act)]
                    else:
                        tail = [close]
                    # afterwards: lookups from the top level and through run_in still start where they are written
                    # (top-level statements are grouped in a batch, which leaves the current scope alone, to keep marker and lookup together)
                    tail += [("batch", [("log", ("lit", 1007)), ("usectx", 0), ("log", ("lit", 1008)), ("usectx", 1)]),
                             ("runin", 5, [("log", ("lit", 1009)), ("usectx", 0), ("log", ("lit", 1010)), ("usectx", 1)]),
                             ("batch", [("provide", 2, ("lit", 8)), ("log", ("lit", 1011)), ("usectx", 2)])]
                    prog = [("signal", 1, ("lit", 0)), ("signal", 2, ("lit", 0)), ("provide", 0, ("lit", 1)), ("scope", 5, panel)] + tail
                    out.append(prog)
    return out


def gen(tier, rng):
    n_tree, n_rand = (900, 600) if tier == "quick" else (9000, 6000)
    cases = [("tree:%d" % i, TreeGen(rng).program()) for i in range(n_tree)]
    cases += [("self-disposal:%d" % i, p) for i, p in enumerate(self_disposal())]
    cases += [("random:%d" % i, p) for i, p in
              enumerate(reactive_gen.random_programs(rng.randrange(1 << 30), n_rand, FEATS, (4, 10), (2, 6), max_nodes=10))]
    return cases


def nontrivial(prog, steps):
    """some lookup found a value provided at least one scope above it, and some lookup found nothing"""
    some = none = False
    for st in steps:
        for l in st["events"]:
            if l.startswith("ctx "):
                if l.endswith(" none"):
                    none = True
                else:
                    some = True
    return some and none


def main(argv):
    return rcheck.run(
        PID, argv, module="C16", theorems=["C16_use_context_nearest","C16_nearest_functional","C16_lookup_total","C16_shadow_local","C16_duplicate_panics","C16_provide_visible","C16_context_cleared"], gen=gen, oracle=lambda prog, steps: oracle(prog, steps) + lexical_failures(prog, steps), nontrivial=nontrivial,
        rule=("scope trees of depth <= 4 with provisions of 3 types at arbitrary nodes, lookups from every scope, via run_in from "
              "ancestors/siblings/root, and from effects re-run by later writes; rare duplicate provisions; self-disposal shapes (a computation whose re-run, nested in "
              "another computation / run_in / batch / the top level, disposes its own owner, followed by lookups and a provision in the outer code, "
              "judged against the lexical reading of the program text); random programs "
              "with contexts provided inside callbacks and disposals (model-vs-code only when outside the reference walk's "
              "vocabulary); non-trivial = some lookup succeeded and some found nothing; distinct = distinct program text"),
        assumptions=["the reference walk takes which effects re-run on a write from the implementation's log (context semantics is what is judged)"])
