"""C05 -- client view equals a fresh render of the current state, updated in place (DESIGN.md 5.C05)."""
import copy
import random

import clientmodel
import domlib
import viewgen
import vlib

PID = "C05"
THEOREMS = ["C05_create_faithful", "C05_update_faithful", "C05_faithful_dom", "C05_fresh_render_last", "C05_fresh_render_every_step", "C05_update_ids",
            "C05_run_ids", "C05_run_dom_nodup", "C05_nonstructural_write", "C05_string_write_is_nonstructural", "C05_stable_nodes_survive"]


def gen_ops(rng, st, n):
    """a sequence of signal writes; returns ops as ('s'|'b'|'l', k, value)"""
    ops = []
    cur = copy.deepcopy(st)
    for _ in range(n):
        kinds = [k for k in ("s", "b", "l") if cur[k]]
        if not kinds:
            break
        kind = rng.choice(kinds)
        k = rng.choice(sorted(cur[kind]))
        if kind == "s":
            v = None if rng.random() < 0.2 else "".join(rng.choice(viewgen.META) for _ in range(rng.randint(0, 3)))
        elif kind == "b":
            v = not cur[kind][k] if rng.random() < 0.8 else cur[kind][k]
        else:
            old = cur[kind][k]
            c = rng.random()
            if c < 0.25:
                v = rng.sample(range(1, 7), rng.randint(0, 4))
            elif c < 0.5 and old:
                v = old[:]
                rng.shuffle(v)
            elif c < 0.7:
                v = old + [x for x in rng.sample(range(1, 9), 2) if x not in old]
            elif c < 0.85 and old:
                v = [x for x in old if rng.random() < 0.6]
            else:
                v = []
        cur[kind][k] = v
        ops.append((kind, k, v))
    return ops


def sx_op(op):
    kind, k, v = op
    if kind == "s":
        return "(s %d %s)" % (k, "none" if v is None else viewgen.hx(v))
    if kind == "b":
        return "(b %d %d)" % (k, int(v))
    return "(l %d (%s))" % (k, " ".join(map(str, v)))


def apply_op(st, op):
    st = copy.deepcopy(st)
    st[op[0]][op[1]] = op[2]
    return st


def parse_nodes(s):
    """structured dump -> list of (kind, id, payload) with 'e' end markers"""
    out = []
    for t in s.split():
        if t == "e":
            out.append(("e", None, None))
        else:
            kind, rest = t[0], t[1:]
            nid, payload = rest.split(":", 1)
            out.append((kind, int(nid), payload))
    return out


def structure(view, st, item=None, regions=()):
    """reference structure of a CLIENT render: list of (kind, payload-or-None, regions) in document order, where regions
    is the tuple of dynamic constructs whose change may legitimately replace the node ((kind, signal) pairs)"""
    k = view[0]
    out = []
    if k == "el":
        out.append(("E", view[1], regions))
        if view[1] not in viewgen.VOID:
            for c in view[3]:
                out += structure(c, st, item, regions)
        out.append(("e", None, regions))
    elif k == "text":
        out.append(("T", view[1], regions))
    elif k == "dyntext":
        out.append(("T", st["s"].get(view[1]) or "", regions))          # updated in place: identity must persist
    elif k == "dyn":
        out.append(("C", "", regions))
        for c in (view[2] if st["b"].get(view[1]) else view[3]):
            out += structure(c, st, item, regions + (("b", view[1]),))
        out.append(("C", "", regions))
    elif k == "show":
        out.append(("C", "", regions))
        if st["b"].get(view[1]):
            for c in view[2]:
                out += structure(c, st, item, regions + (("b", view[1]),))
        out.append(("C", "", regions))
    elif k == "list":
        out.append(("C", "", regions))
        for it in st["l"].get(view[2], []):
            for c in view[3]:
                out += structure(c, st, it, regions + (("l", view[2]),))
        out.append(("C", "", regions))
    elif k == "item":
        out.append(("T", "" if item is None else str(item), regions))
    elif k in ("frag", "comp", "nohydrate", "nossr"):
        for c in view[1]:
            out += structure(c, st, item, regions)
    return out


def identity_failures(view, st_before, st_after, op, nodes_before, nodes_after):
    """nodes outside every dynamic region whose input changed keep their identity"""
    sb = structure(view, st_before)
    sa = structure(view, st_after)
    if len(sb) != len(nodes_before) or len(sa) != len(nodes_after):
        return []       # structure mismatch is reported by the fresh-render oracle
    changed = (op[0], op[1])
    keep_b = [n[1] for n, s in zip(nodes_before, sb) if n[0] != "e" and changed not in s[2]]
    keep_a = [n[1] for n, s in zip(nodes_after, sa) if n[0] != "e" and changed not in s[2]]
    if keep_b != keep_a:
        return [{"what": "a node outside the changed dynamic region was recreated or moved", "op": op,
                 "ids_before": keep_b, "ids_after": keep_a}]
    return []


def toplevel(vs):
    """the constructs at the top level of a child view (through fragments / components / NoHydrate / NoSsr)"""
    out = []
    for v in vs:
        if v[0] in ("frag", "comp", "nohydrate", "nossr"):
            out += toplevel(v[1])
        else:
            out.append(v)
    return out


def has_toplevel_dynamic_child(v):
    """matcher of known finding F9"""
    k = v[0]
    kids = []
    if k == "el":
        kids = v[3]
    elif k == "dyn":
        kids = v[2] + v[3]
    elif k in ("frag", "comp", "nohydrate", "nossr"):
        kids = v[1]
    elif k == "show":
        kids = v[2]
        if any(c[0] in ("dyn", "show", "list") for c in toplevel(kids)):
            return True
    elif k == "list":
        kids = v[3]
        if any(c[0] in ("dyn", "show", "list") for c in toplevel(kids)):
            return True
    return any(has_toplevel_dynamic_child(c) for c in kids)


def evaluate(chk, cases, impl, lines):
    """the oracle on the driver output of `(client ...)` scenarios: after the initial render and after every write the DOM equals a
    fresh render of the current state, node identity is preserved outside the changed regions, no warnings / panics"""
    orfail = []
    dist = {}
    for ci, ((st, v, ops), out, line) in enumerate(zip(cases, impl, lines)):
        nfail = len(orfail)
        changed = False
        if out[0].startswith("PANIC"):
            orfail.append({"what": "panic", "message": bytes.fromhex(out[0][6:]).decode("utf8", "replace"), "scenario": line, "case": ci})
            chk.note_case(line, False)
            continue
        cur = st
        prev_nodes = None
        prev_dom = None
        for k, l in enumerate(out):
            parts = dict(p.split(" ", 1) if " " in p else (p, "") for p in l.split(" ; "))
            dom = bytes.fromhex(parts["dom"]).decode("utf8", "replace")
            nodes = parse_nodes(parts["nodes"])
            fresh = parse_nodes(parts["fresh"])
            if k > 0:
                cur = apply_op(cur, ops[k - 1])
            def canon(payload):
                # attribute order is not significant in the DOM (isEqualNode ignores it): compare attributes as a sorted list
                if payload is None or ":" not in payload:
                    return payload
                tag, attrs = payload.split(":", 1)
                return tag + ":" + ",".join(sorted(a for a in attrs.split(",") if a))
            strip = lambda ns: [(n[0], canon(n[2]) if n[0] == "E" else n[2]) for n in ns]
            plain = strip(nodes)
            if plain != strip(fresh):
                orfail.append({"what": "DOM after update differs from a fresh render of the current state", "step": k, "dom": dom,
                               "fresh_nodes": parts["fresh"][:800], "scenario": line})
                break
            if int(parts["warn"]) > 0:
                orfail.append({"what": "console warning during update", "step": k, "scenario": line})
                break
            if k > 0:
                f = identity_failures(v, apply_op_rev(st, ops, k - 1), cur, ops[k - 1], prev_nodes, nodes)
                if f:
                    f[0]["scenario"] = line
                    f[0]["step"] = k
                    orfail.append(f[0])
                    break
                if prev_dom != plain:
                    changed = True
            prev_nodes, prev_dom = nodes, plain
        for o in orfail[nfail:]:
            o["case"] = ci
        chk.note_case(line, changed)
    return orfail


def nested_region_cases(tier, rng):
    """dynamic regions whose branches have other self-updating regions (dynamic views, lists, Show, dynamic text) directly at
    their top level, with every short sequence of writes to the outer and inner inputs (the inner one changes between two outer updates)"""
    E = lambda tag, *kids: ("el", tag, [], list(kids))
    T = lambda s: ("text", s)
    D = lambda k, a, b: ("dyn", k, list(a), list(b))
    li = [E("li", ("item",))]
    views = [
        E("div", E("span", T("static")), D(0, [E("b", T("o")), D(1, [E("em", T("i1"))], [E("em", T("i0"))])], [T("off")])),
        E("div", D(0, [D(1, [T("A")], [T("B")]), E("i", T("x"))], [D(1, [T("C")], [])])),
        E("p", D(0, [T("Hello "), ("dyntext", 0), T("!")], [T("Please log in")])),
        E("ul", D(0, [("list", True, 0, li)], [E("li", T("none"))])),
        E("ul", D(0, [T("h"), ("list", False, 0, li), T("t")], [("list", True, 0, li)])),
        E("div", D(0, [("show", 1, [E("p", T("s"))]), T("x")], [T("y")])),
        E("div", D(0, [D(1, [D(2, [T("a")], [T("b")]), T("c")], [T("d")])], [T("e")]), T("end")),
        ("frag", [D(0, [D(1, [E("u", T("1"))], [])], []), E("hr")]),
        E("div", D(0, [("comp", [D(1, [T("A")], [T("B")])])], [("frag", [D(1, [T("C")], [T("D")])])])),
    ]
    out = []
    for v in views:
        st = {"s": {0: "Ann"}, "b": {0: rng.random() < 0.5, 1: True, 2: False}, "l": {0: [1, 2]}}
        alphabet = [("b", 0), ("b", 1), ("b", 2), ("s", 0), ("l", 0)]
        used = set()
        def walk(x):
            if x[0] in ("dyn", "show"):
                used.add(("b", x[1]))
            if x[0] == "dyntext":
                used.add(("s", x[1]))
            if x[0] == "list":
                used.add(("l", x[2]))
            kids = x[3] if x[0] in ("el", "list") else (x[2] + x[3] if x[0] == "dyn" else (x[2] if x[0] == "show" else (x[1] if x[0] in ("frag", "comp") else [])))
            for c in kids:
                walk(c)
        walk(v)
        alphabet = [a for a in alphabet if a in used]
        import itertools
        seqs = [q for n in (2, 3, 4) for q in itertools.product(alphabet, repeat=n)]
        if tier == "quick" and len(seqs) > 60:
            seqs = rng.sample(seqs, 60)
        for q in seqs:
            cur = copy.deepcopy(st)
            ops = []
            cnt = 0
            for kind, k in q:
                cnt += 1
                if kind == "b":
                    val = not cur["b"][k]
                elif kind == "s":
                    val = "Bob%d" % cnt
                else:
                    old = cur["l"][k]
                    val = rng.choice([old + [cnt + 2], old[1:], list(reversed(old)), [9, 1]])
                cur[kind][k] = val
                ops.append((kind, k, val))
            out.append((copy.deepcopy(st), v, ops))
    return out


def has_toplevel_nossr(v):
    """structural half of the matcher of known finding F15"""
    def top(vs):
        out = []
        for x in vs:
            if x[0] in ("frag", "comp", "nohydrate"):
                out += top(x[1])
            else:
                out.append(x)
        return out
    k = v[0]
    kids = []
    if k == "el":
        kids = v[3]
    elif k == "dyn":
        kids = v[2] + v[3]
    elif k in ("frag", "comp", "nohydrate", "nossr"):
        kids = v[1]
    elif k in ("show", "list"):
        kids = v[2] if k == "show" else v[3]
        if any(c[0] == "nossr" for c in top(kids)):
            return True
    return any(has_toplevel_nossr(c) for c in kids)


def premount_cases():
    """a signal is written after the view has been built but before it is mounted (a component body that sets a title / registers itself
    in a list that an earlier sibling displays): the mounted DOM must be a fresh render of the state at that moment"""
    E = lambda tag, *kids: ("el", tag, [], list(kids))
    D = lambda k, a, b: ("dyn", k, [("text", a)], [("text", b)])
    L = ("list", True, 0, [E("li", ("item",))])
    LI = ("list", False, 0, [E("li", ("item",))])
    views = [D(0, "a", "b"), ("frag", [("text", "t"), D(0, "a", "b"), E("p")]), ("show", 0, [E("p", ("text", "s"))]), L, LI,
             ("frag", [L, E("p")]), ("comp", [D(0, "a", "b")]),
             # controls: the same regions inside an element, and a dynamic text (updated in place)
             E("div", D(0, "a", "b")), E("ul", L), E("div", ("show", 0, [E("p")])), ("dyntext", 0), ("frag", [("dyntext", 0), E("p")])]
    out = []
    for v in views:
        st = {"s": {0: "x"}, "b": {0: True}, "l": {0: [1, 2]}}
        for pre in ([("b", 0, False)], [("l", 0, [2, 1, 3])], [("s", 0, "y")], [("b", 0, False), ("b", 0, True)], [("l", 0, [])]):
            for ops in ([], [("b", 0, True), ("l", 0, [3]), ("s", 0, "z")]):
                out.append((st, v, pre, ops))
    return out


def premount_finding(v, pre):
    """known finding F41: a dynamic view / Show / list whose markers have no parent yet (top level of the mount point, through fragments
    and components) and whose controlling signal is written before the mount"""
    top = toplevel([v])
    kinds = {"b": ("dyn", "show"), "l": ("list",)}
    for op in pre:
        for t in top:
            if t[0] in kinds.get(op[0], ()) and (t[1] if t[0] != "list" else t[2]) == op[1]:
                return True
    return False


def toggled_values():
    """a dynamic optional value that goes away and comes back UNCHANGED (Some(v) -> None -> Some(v)), as attribute value, as dynamic text
    and as both: what the DOM holds is what was written last, not what was written before the removal (seed C05-g)"""
    out = []
    views = [("el", "span", [("adyn", "title", 0)], []),
             ("el", "p", [("adyn", "class", 0)], [("dyntext", 0)]),
             ("el", "div", [("adyn", "data-x", 0), ("adyn", "lang", 1)], [("el", "i", [("adyn", "title", 1)], [("text", "t")])])]
    seqs = [[None, "v", None, "v"], ["w", None, "w", None, "w"], [None, None, "v", "v", None, "v"], ["", None, "", "v", None, "v"]]
    for v in views:
        for init in ("v", None):
            for sq in seqs:
                st = {"s": {0: init, 1: init}, "b": {}, "l": {}}
                ops = []
                for x in sq:
                    ops.append(("s", 0, x))
                    if len(v[2]) > 1:
                        ops.append(("s", 1, x))
                out.append((st, v, ops))
    return out


def gen(tier, rng):
    cases = nested_region_cases(tier, rng) + toggled_values()
    n = 700 if tier == "quick" else 8000
    for i in range(n):
        st, v = viewgen.random_view(rng, rng.choice([2, 3, 4]), {"nossr": 0.5, "nohydrate": 0.5})
        ops = gen_ops(rng, st, rng.randint(1, 6))
        cases.append((st, v, ops))
    return cases


def main(argv):
    a, seed = vlib.args(argv)
    chk = vlib.Check(PID, a.tier, seed, "proof")
    rng = random.Random(seed * 1009 + 5)
    chk.trusted = ["the in-process DOM harness/dom/shims/web-sys standing in for a browser", "tools/domgen.py (generated crate root, client polarity)",
                   "harness/dom/dom-driver + harness/common/viewspec.rs", "tools/viewgen.py, tools/c05.py (generators, reference structure for the identity check)"]
    chk.assumptions = ["event handlers, bind, NodeRef, Portal and properties are outside the vocabulary"]
    chk.rule = ("random view trees of depth <= 4 over elements, static / dynamic text, dynamic views, Show, Keyed / Indexed (with item templates), components, "
                "NoSsr / NoHydrate, static / dynamic / None / boolean attributes, nested arbitrarily; 1-6 signal writes (strings incl. metacharacters and "
                "None, booleans, list permutations / insertions / removals / clears); after the initial render and after every write the DOM under the mount "
                "point is compared with a fresh client render of the current state made by the real code in a second root, and node identity outside the "
                "changed regions is compared before / after; non-trivial = some write changed the serialised DOM; distinct = distinct (state, view, ops)")
    chk.cov["explanation"] = ("Coq theorems on the instance-tree model Dom/Client.v (update = fresh render for every write sequence, identities) + correspondence of the model with the real client back end + differential check of the real code against itself (in-place update vs fresh render) with an identity oracle")
    okp, msgp = vlib.proof_step(chk, "C05", ["theories/Props/C05.vo", "theories/Dom/ClientShow.vo"], THEOREMS)
    binp = domlib.build(chk)
    if not binp:
        chk.violation({"property": PID, "broken": "harness build"}, no_input=True)
        return chk.finish()
    cases = gen(a.tier, rng)
    lines = ["(client %s %s (%s))" % (viewgen.sx_state(st), viewgen.sx_view(v), " ".join(sx_op(o) for o in ops)) for st, v, ops in cases]
    try:
        impl = domlib.run(binp, lines)
    except RuntimeError as e:
        chk.violation({"property": PID, "broken": "driver run", "detail": str(e)}, no_input=True)
        return chk.finish()
    orfail = evaluate(chk, cases, impl, lines)
    dist = {}
    # correspondence with the instance-tree model Dom/Client.v (views on which known findings F9 / F15 apply are outside the model)
    mism = []
    sel = [i for i, c in enumerate(cases) if not has_toplevel_dynamic_child(c[1]) and not has_toplevel_nossr(c[1]) and not impl[i][0].startswith("PANIC")]
    okm, outm = vlib.coq_make(["theories/Dom/ClientShow.vo"])
    chk.obligation("coq build theories/Dom/ClientShow.vo (client model)", okm, outm)
    model = None
    if okm:
        try:
            model = clientmodel.run_model(PID, [cases[i] for i in sel])
        except RuntimeError as e:
            chk.obligation("model evaluation (Dom/Client.v)", False, str(e)[-800:])
    if model is not None:
        for i, mo in zip(sel, model):
            dumps = [dict(p.split(" ", 1) if " " in p else (p, "") for p in l.split(" ; "))["nodes"] for l in impl[i]]
            d = clientmodel.compare(dumps, mo)
            if d:
                d["scenario"] = lines[i]
                mism.append(d)
        chk.traces = len(sel)
    chk.obligation("correspondence: Dom/Client.v = the real client back end on %d scenarios (structure and which nodes survive each write)" % len(sel),
                   model is not None and not mism, str(mism[:1]))
    findings = {f["key"]: f for f in vlib.load_findings(PID)}
    # writes between construction and mount
    pcases = premount_cases()
    plines = ["(clientpre %s %s (%s) (%s))" % (viewgen.sx_state(st), viewgen.sx_view(v), " ".join(sx_op(o) for o in pre), " ".join(sx_op(o) for o in ops))
              for st, v, pre, ops in pcases]
    pfail = []
    try:
        pimpl = domlib.run(binp, plines)
        for (st, v, pre, ops), out, line in zip(pcases, pimpl, plines):
            bad = None
            if out[0].startswith("PANIC"):
                bad = {"what": "panic when a signal is written before the view is mounted", "message": bytes.fromhex(out[0][6:]).decode("utf8", "replace")[:200], "scenario": line}
            else:
                for k, l in enumerate(out):
                    parts = dict(p.split(" ", 1) if " " in p else (p, "") for p in l.split(" ; "))
                    strip = lambda ns: [(n[0], n[2]) for n in ns]
                    if strip(parse_nodes(parts["nodes"])) != strip(parse_nodes(parts["fresh"])):
                        bad = {"what": "the mounted DOM is not a fresh render of the current state (a write made before the mount was lost)", "step": k,
                               "dom": bytes.fromhex(parts["dom"]).decode("utf8", "replace")[:300], "scenario": line}
                        break
            if bad:
                if "F41-write-before-mount" in findings and premount_finding(v, pre) and not bad["what"].startswith("panic"):
                    chk.known(findings["F41-write-before-mount"], "e.g. " + line[:200])
                else:
                    pfail.append(bad)
    except RuntimeError as e:
        pfail.append({"what": "driver run (pre-mount writes)", "detail": str(e)[-500:], "scenario": ""})
    chk.obligation("oracle: a signal written between the construction of the view and its mount: the mounted DOM is a fresh render of the state at that moment, "
                   "and so after every later write (%d scenarios)" % len(pcases), not pfail, str(pfail[:1]))
    real = list(pfail)
    for o in orfail:
        v = cases[o["case"]][1]
        if "F15-nossr-marker-in-snapshot" in findings and has_toplevel_nossr(v) and "<no-ssr" in o.get("dom", ""):
            chk.known(findings["F15-nossr-marker-in-snapshot"], "e.g. " + o["scenario"][:200])
        elif "F9-toplevel-dynamic-child" in findings and has_toplevel_dynamic_child(v):
            chk.known(findings["F9-toplevel-dynamic-child"], "e.g. " + o["scenario"][:200])
        else:
            real.append(o)
    orfail = real
    chk.obligation("oracle: DOM = fresh render after every write, identity preserved outside changed regions, no warnings / panics (%d scenarios)" % len(cases),
                   not orfail, str(orfail[:2]))
    chk.cov["distribution"] = dist
    for i in (0, len(cases) // 2, len(cases) - 1):
        chk.sample({"scenario": lines[i][:600]})
    if orfail:
        orfail.sort(key=lambda o: len(o.get("scenario", "")))
        chk.violation({"property": PID, "kind": "oracle failure on implementation output", "input": orfail[0], "count": len(orfail)})
    elif mism or model is None or not okp:
        mism.sort(key=lambda o: len(o.get("scenario", "")))
        chk.violation({"property": PID, "kind": "proof/correspondence broken, oracle clean on all inputs explored",
                       "mismatches": mism[:3], "mismatch_count": len(mism), "theorems": "" if okp else msgp}, no_input=True)
    return chk.finish()


def apply_op_rev(st, ops, upto):
    cur = st
    for o in ops[:upto]:
        cur = apply_op(cur, o)
    return cur
