"""C04 -- scopes own what they create; disposal is complete, exactly-once and leak-free (DESIGN.md 5.C04)."""
import rcheck
import reactive_gen

PID = "C04"
FEATS = {"untracked": 0.1, "selector": 0.5, "effect": 2, "nested": 0.6, "scope": 2, "cleanup": 0.7, "dispose": 1.5, "batch": 0.5,
         "runin": 0.7, "runin_op": 0.7, "curscope": 0.3, "late_create": 1, "root_handle": 1, "log": 0.3,
         "dispose_in_callback": 0.1, "dispose_in_cleanup": 0.1}


def gen(tier, rng):
    n = 1500 if tier == "quick" else 15000
    progs = reactive_gen.random_programs(rng.randrange(1 << 30), n, FEATS, (4, 9), (3, 9), max_nodes=10)
    out = []
    for i, p in enumerate(progs):
        out.append(("random:%d" % i, p + [("dispose", 0)]))      # root disposal closes every history
    return out


def nontrivial(prog, steps):
    """at least two cleanups ran and at least one node was destroyed before the final root disposal"""
    cl = sum(1 for st in steps[:-1] for l in st["events"] if l.startswith("cleanup "))
    shrink = any(a["snap"] and b["snap"] and b["snap"]["n"] < a["snap"]["n"] for a, b in zip(steps, steps[1:-1]))
    return cl >= 2 and shrink


def main(argv):
    return rcheck.run(
        PID, argv, module=None, theorems=[], gen=gen, oracle=rcheck.ownership_failures, nontrivial=nontrivial,
        rule=("random ownership trees (scopes, effects creating effects/memos/signals/cleanups, run_in) x interleavings of "
              "re-runs, explicit disposals (also from callbacks and cleanups), closed by disposal of the root; non-trivial = "
              ">= 2 cleanups ran and some node was destroyed before the root disposal; distinct = distinct program text"),
        assumptions=["mapped-list item scopes are exercised by C07's check, not here"])
