"""C04 -- scopes own what they create; disposal is complete, exactly-once and leak-free (DESIGN.md 5.C04)."""
import os
import arena
import rcheck
import reactive
import reactive_gen

PID = "C04"
FEATS = {"untracked": 0.1, "selector": 0.5, "effect": 2, "nested": 0.6, "scope": 2, "cleanup": 0.7, "dispose": 1.5, "batch": 0.5,
         "runin": 0.7, "runin_op": 0.7, "curscope": 0.3, "late_create": 1, "root_handle": 1, "log": 0.3,
         "dispose_in_callback": 0.1, "dispose_in_cleanup": 0.1}


def gen(tier, rng):
    n = 1500 if tier == "quick" else 15000
    progs = reactive_gen.random_programs(rng.randrange(1 << 30), n, FEATS, (4, 9), (3, 9), max_nodes=10)
    out = []
    for i, p in enumerate(progs):
        # root disposal closes every history: through the root scope's NodeHandle, or (odd cases) left to the RootHandle at the end
        out.append(("random:%d" % i, p + [("dispose", 0)] if i % 2 == 0 else p))
    fam = cleanup_writes(tier, rng)
    out += fam
    out += root_handle_disposal(fam)
    out += self_disposing_cleanups()
    out += foreign_cleanups()
    return out


def foreign_cleanups():
    """`@F` scenarios: every write the scenario makes -- here from inside a running effect / memo, a cleanup, a batch -- is followed
    by the creation and disposal of a scope of the FOREIGN root whose cleanup reads every live signal of the scenario: cleanup
    callbacks run untracked whoever is running, so the computation around the write subscribes to nothing (seed C04-h). Judged by
    the subscription oracle of C03 (the programs are plain) besides the ownership clauses"""
    out = []
    k = 0
    for kind in ("effect", "memo"):
        for where in ("body", "cleanup", "batch", "nested"):
            w = ("set", 2, ("add", ("getu", 2), ("lit", 1)))
            if where == "body":
                ss = [w]
            elif where == "cleanup":
                ss = [("oncleanup", 1, [w])]
            elif where == "batch":
                ss = [("batch", [w])]
            else:
                ss = [("effect", 6, ("body", None, [w], ("get", 5)))]
            prog = [("signal", 1, ("lit", 1)), ("signal", 2, ("lit", 0)), ("signal", 3, ("lit", 0)), ("signal", 5, ("lit", 0)),
                    (kind, 4, ("body", None, ss, ("get", 3))),
                    ("set", 3, ("lit", 1)), ("set", 1, ("lit", 7)), ("set", 5, ("lit", 1)), ("set", 3, ("lit", 2)), ("set", 1, ("lit", 8)),
                    ("set", 2, ("lit", 50)), ("dispose", 0)]
            out.append(("foreign-cleanup:%d" % k, reactive.ViaForeign(prog))); k += 1
    return out


def cleanup_writes(tier, rng):
    """cleanups that write signals read by the computation that owns them (or by its ancestors / descendants): the write happens
    while the owner is being disposed or re-run (finding F17)"""
    out = []
    k = 0
    for owner_kind in ("effect", "memo"):
        for reads in ("get", "getu"):
            for inner in ("effect", "memo", "signal", "scope", "none"):
                for where in ("own", "child"):
                    for trigger in ("dispose_scope", "dispose_owner", "rerun", "dispose_root"):
                        write = ("oncleanup", 1, [("set", 1, ("add", ("getu", 1), ("lit", 1)))])
                        kids = []
                        if inner == "effect":
                            kids = [("effect", 5, ("body", None, [("oncleanup", 2, [])], ("get", 1)))]
                        elif inner == "memo":
                            kids = [("memo", 5, ("body", None, [], ("add", ("get", 1), ("lit", 10))))]
                        elif inner == "signal":
                            kids = [("signal", 5, ("lit", 7))]
                        elif inner == "scope":
                            kids = [("scope", 5, [("signal", 6, ("lit", 0)), ("oncleanup", 3, [])])]
                        if where == "own":
                            body_ss = [write] + kids
                        else:
                            body_ss = [("scope", 7, [write])] + kids
                        ret = (reads, 1) if reads == "get" else ("add", ("getu", 1), ("get", 8))
                        prog = [("signal", 1, ("lit", 0)), ("signal", 8, ("lit", 0)),
                                ("scope", 2, [(owner_kind, 3, ("body", None, body_ss, ret))])]
                        if trigger == "dispose_scope":
                            prog += [("dispose", 2)]
                        elif trigger == "dispose_owner":
                            prog += [("dispose", 3)]
                        elif trigger == "rerun":
                            prog += [("set", 8, ("lit", 1)), ("set", 1, ("lit", 50))]
                        prog += [("set", 1, ("lit", 100)), ("set", 8, ("lit", 5)), ("dispose", 0)]
                        out.append(("cleanup-writes:%d" % k, prog))
                        k += 1
    if tier == "quick":
        out = rng.sample(out, 120)
    return out + cleanup_creates()


def cleanup_creates():
    """cleanups that create nodes / register cleanups in the very scope that is being disposed (through run_in on its handle, or
    because the dying computation is still the current owner), then later writes / context lookups (finding F20)"""
    out = []
    k = 0
    made = {
        "effect": [("effect", 5, ("body", None, [("usectx", 1)], ("get", 1)))],
        "memo": [("memo", 5, ("body", None, [], ("add", ("get", 1), ("lit", 1))))],
        "signal": [("signal", 5, ("lit", 3))],
        "cleanup": [("oncleanup", 2, [("log", ("lit", 7))])],
        "scope": [("scope", 5, [("oncleanup", 3, []), ("signal", 6, ("lit", 0))])],
        "nested": [("oncleanup", 2, [("oncleanup", 3, [("signal", 6, ("lit", 1))])])],
    }
    for what, stmts in made.items():
        # (a) through run_in on the handle of the scope being disposed
        prog = [("signal", 1, ("lit", 0)), ("scope", 2, [("curscope", 4), ("provide", 1, ("lit", 9)), ("oncleanup", 1, [("runin", 4, stmts)])]),
                ("dispose", 2), ("set", 1, ("lit", 1)), ("dispose", 0)]
        out.append(("cleanup-creates:%d" % k, prog)); k += 1
        # (b) an effect whose cleanup creates things, then disposes itself / is re-run / its scope is disposed
        for trig in ("self", "rerun", "scope"):
            body_ss = [("oncleanup", 1, stmts)] + ([("if", ("lt", ("lit", 0), ("get", 8)), [("dispose", 3)], [])] if trig == "self" else [])
            prog = [("signal", 1, ("lit", 0)), ("signal", 8, ("lit", 0)),
                    ("scope", 2, [("effect", 3, ("body", None, body_ss, ("get", 8)))])]
            prog += [("set", 8, ("lit", 1))] if trig in ("self", "rerun") else [("dispose", 2)]
            prog += [("set", 1, ("lit", 1)), ("set", 8, ("lit", 2)), ("dispose", 0)]
            out.append(("cleanup-creates:%d" % k, prog)); k += 1
    # (c) a cleanup disposes its own scope / an ancestor while siblings taken out by the outer disposal are still alive,
    #     then looks up a context / creates things from one of them (finding F21)
    for target in (4, 9):
        for act in ([("usectx", 1)], [("signal", 7, ("lit", 1))], [("effect", 7, ("body", None, [("usectx", 1)], ("get", 1)))], [("oncleanup", 5, [])]):
            prog = [("signal", 1, ("lit", 0)),
                    ("scope", 8, [("curscope", 9), ("provide", 1, ("lit", 3)),
                                  ("scope", 2, [("curscope", 4), ("scope", 5, []), ("oncleanup", 1, [("dispose", target), ("runin", 5, act)])])]),
                    ("dispose", 2), ("set", 1, ("lit", 2)), ("dispose", 0)]
            out.append(("cleanup-creates:%d" % k, prog)); k += 1
    return out


def self_disposing_cleanups():
    """the cleanup registered by the previous run of an effect / memo disposes that very computation, or a scope that owns it: the
    re-run has just run the cleanup when it finds itself destroyed and must not run the body again"""
    out = []
    k = 0
    for kind in ("effect", "memo"):
        for target in ("self", "owner", "grand"):
            for extra in ("none", "child", "write"):
                body_ss = [("curscope", 4)]
                tgt = {"self": 4, "owner": 2, "grand": 6}[target]
                cl = [("dispose", tgt)]
                if extra == "write":
                    cl.append(("set", 8, ("lit", 5)))
                body_ss.append(("oncleanup", 1, cl))
                if extra == "child":
                    body_ss.append(("effect", 5, ("body", None, [("oncleanup", 2, [])], ("get", 1))))
                comp = (kind, 3, ("body", None, body_ss, ("get", 1)))
                prog = [("signal", 1, ("lit", 0)), ("signal", 8, ("lit", 0)), ("scope", 6, [("scope", 2, [comp])]),
                        ("effect", 9, ("body", None, [], ("add", ("get", 8), ("get", 1)))),
                        ("set", 1, ("lit", 1)), ("set", 1, ("lit", 2)), ("set", 8, ("lit", 1))]
                out.append(("self-disposing-cleanup:%d" % k, prog)); k += 1
    return out


def root_handle_disposal(fam):
    """the same shapes left ALIVE until the end of the scenario, where the driver disposes the root through its RootHandle (from
    outside the root): cleanups that write what live effects / memos read (which then run, register cleanups and create nodes in
    the middle of the disposal), cleanups that create nodes / register cleanups / look contexts up"""
    out = []
    k = 0
    for _, prog in fam:
        alive = [st for st in prog if st[0] != "dispose"]
        if alive != prog:
            out.append(("root-handle:%d" % k, alive)); k += 1
    # an effect that re-registers its cleanup on every run, a root-level cleanup that makes it run; an older effect and a younger
    # scope whose cleanup writes; a memo whose re-run creates a scope with an effect and a cleanup
    out.append(("root-handle:%d" % k, [("signal", 1, ("lit", 1)), ("effect", 2, ("body", None, [("oncleanup", 1, [("log", ("lit", 5))])], ("get", 1))),
                                       ("oncleanup", 2, [("set", 1, ("lit", 0))])])); k += 1
    out.append(("root-handle:%d" % k, [("signal", 1, ("lit", 1)), ("scope", 2, [("effect", 3, ("body", None, [("oncleanup", 1, [])], ("get", 1)))]),
                                       ("scope", 4, [("oncleanup", 2, [("set", 1, ("lit", 7))])])])); k += 1
    out.append(("root-handle:%d" % k, [("signal", 1, ("lit", 1)),
                                       ("memo", 2, ("body", None, [("scope", 3, [("effect", 4, ("body", None, [], ("get", 1))), ("oncleanup", 1, [])])], ("get", 1))),
                                       ("scope", 5, [("oncleanup", 2, [("set", 1, ("lit", 2))])])])); k += 1
    return out


def nontrivial(prog, steps):
    """at least two cleanups ran and at least one node was destroyed before the final root disposal"""
    cl = sum(1 for st in steps[:-1] for l in st["events"] if l.startswith("cleanup "))
    shrink = any(a["snap"] and b["snap"] and b["snap"]["n"] < a["snap"]["n"] for a, b in zip(steps, steps[1:-1]))
    return cl >= 2 and shrink


def item_scopes():
    """mapped-list item scopes (map_keyed / map_indexed): cleanups of leaving items run exactly once, one live scope per item --
    the real functions through harness/list-driver, judged by C07's oracle restricted to its ownership clauses"""
    import random
    import c07
    import vlib
    okb, outb, binp = vlib.cargo_build("list-driver")
    if not okb:
        return [("mapped-list item scopes: cargo build list-driver", False, outb[-600:])]
    rng = random.Random(4)
    chains = [c for c in c07.gen("quick", rng) if c[1] != "dupkeys"]
    rc, so, se = vlib.run_driver(binp, "\n".join(c07.fmt_chain(m, ch) for m, _, ch in chains) + "\n")
    blocks = so.rstrip("\n").split("\n==\n")
    if rc != 0 or len(blocks) != len(chains):
        return [("mapped-list item scopes: list-driver run", False, se[-600:])]
    bad = []
    for (m, tag, ch), b in zip(chains, blocks):
        fails, _ = c07.oracle(m, ch, [c07.parse_line(l) for l in b.split("\n")])
        own = [f for f in fails if f["what"].startswith(("cleanups run exactly once", "one live item scope"))]
        if own or b.startswith("PANIC"):
            bad.append({"chain": c07.fmt_chain(m, ch), "failures": own[:2] or "panic"})
    bad.sort(key=lambda x: len(x["chain"]))
    return [("mapped-list item scopes: cleanups of leavers exactly once and one live scope per item on %d chains of map_keyed / map_indexed" % len(chains),
             not bad, str(bad[:1]), bad[0] if bad else None)]


def main(argv):
    return rcheck.run(
        PID, argv, module="C04+C04a", theorems=["C04a_removed_never_alive", "C04a_drained_never_alive", "C04a_keys_fresh", "C04a_arena_refines_set", "C04a_free_list_complete", "C04a_fresh_arena_resurrects", "C04a_odd_rems_needed", "C04a_driver_is_history", "C04a_driver_keys_distinct", "C04a_driver_dead_stays_dead", "C04a_driver_reinit_kills", "C04a_driver_new_root_alive", "C04a_lines_keys_distinct", "C04a_lines_dead_stays_dead", "C04a_alive_iff_spec", "C04a_dispose_exact", "C04_program_final_state", "C04_dispose_not_alive", "C04_dispose_leak_free", "C04_dispose_no_edges",
                                        "C04_dispose_cleanups_exact", "C04_cleanups_conserved", "C04_disposed_node_stays_clean", "C04_disposed_by_cleanup_not_rerun", "C04_rerun_iff_survived"], gen=gen, oracle=lambda prog, steps: rcheck.ownership_failures(prog, steps) + rcheck.destroyed_runs_again(prog, steps) + (rcheck.subscription_failures(prog, steps) if isinstance(prog, reactive.ViaForeign) else []), nontrivial=nontrivial,
        rule=("random ownership trees (scopes, effects creating effects/memos/signals/cleanups, run_in) x interleavings of "
              "re-runs, explicit disposals (also from callbacks and cleanups), closed by disposal of the root; non-trivial = "
              ">= 2 cleanups ran and some node was destroyed before the root disposal; distinct = distinct program text"),
        assumptions=["mapped-list item scopes are outside the scenario language: they are judged here through harness/list-driver with C07's oracle (ownership clauses), and proved on the model in C07 (C07_keyed_history)"],
        extra_obligations=lambda: item_scopes() + arena.obligations(os.environ.get('VERIF_TIER', 'quick') if '--tier' not in argv else argv[argv.index('--tier') + 1], int(os.environ.get('VERIF_SEED', '0') or 0)))
