"""Generic check runner for the reactive-runtime properties and the oracles they share."""
import json
import os
import random

import reactive
import vlib
from vlib import glist
from reactive import computations, ref_eval, tracked_only, Undefined

CORPUS_DIR = os.path.join(vlib.ROOT, "corpus")


def load_corpus(pid):
    """corpus/<pid>/*.json : {"name":..., "program": <ast as nested lists>}"""
    d = os.path.join(CORPUS_DIR, pid)
    out = []
    if os.path.isdir(d):
        for f in sorted(os.listdir(d)):
            if f.endswith(".json"):
                j = json.load(open(os.path.join(d, f)))
                out.append((j.get("name", f), detuple(j["program"])))
    return out


def detuple(x):
    """json lists -> the tuple/list AST convention (statements and expressions are tuples, blocks are lists)"""
    if isinstance(x, list):
        if x and isinstance(x[0], str):
            return tuple(detuple(a) for a in x)
        return [detuple(a) for a in x]
    return x


# ---------------------------------------------------------------------------------------
# log structure

def run_spans(events):
    """list of runs in one step: {"name", "start", "end", "reads": [(x, v, syn, eff, pos)], "tracks": [(x, eff, pos)]}
    (reads made directly by that run, not by runs nested in it)"""
    stack = []
    done = []
    for i, l in enumerate(events):
        f = l.split(" ")
        if f[0] == "run":
            stack.append({"name": int(f[1]), "start": i, "end": None, "reads": [], "tracks": []})
        elif f[0] == "end":
            if stack and stack[-1]["name"] == int(f[1]):
                r = stack.pop()
                r["end"] = i
                done.append(r)
        elif f[0] == "read" and stack:
            eff = int(f[4]) if len(f) > 4 else int(f[3])
            stack[-1]["reads"].append((int(f[1]), int(f[2]), int(f[3]), eff, i))
        elif f[0] == "track" and stack:
            stack[-1]["tracks"].append((int(f[1]), int(f[2]) if len(f) > 2 else 1, i))
    for r in stack:   # unfinished (panic)
        r["end"] = len(events)
        done.append(r)
    done.sort(key=lambda r: r["start"])
    return done


def late_read(events, run, prev_nodes=None):
    """did this run read a node that ran later in the same step (i.e. was still scheduled) and to which the
    reader was NOT subscribed when the step began? (F1 is about late *subscription*: a stale read of something the
    reader already depended on is a different defect)"""
    later_runs = {}
    for i, l in enumerate(events):
        if l.startswith("run "):
            later_runs.setdefault(int(l.split(" ")[1]), []).append(i)
    old_deps = None
    # a run nested inside another run is the first run of a node created by that run: it has no old subscriptions
    open_runs = 0
    for l in events[:run["start"]]:
        if l.startswith("run "):
            open_runs += 1
        elif l.startswith("end "):
            open_runs -= 1
    if prev_nodes is not None and open_runs == 0:
        p = prev_nodes.get(run["name"])
        if p and p.get("alive"):
            old_deps = set(p["deps"])
    # tracked reads and explicit track() / on(deps, ..) subscriptions alike
    subs = [(x, eff, pos) for (x, _, _, eff, pos) in run["reads"]] + [(x, eff, pos) for (x, eff, pos) in run["tracks"]]
    for (x, eff, pos) in sorted(subs, key=lambda t: t[2]):
        if eff and any(p > pos for p in later_runs.get(x, [])):
            if old_deps is not None and str(x) in old_deps:
                continue
            return x
    return None


def taint_map(events, prev_nodes=None):
    """root cause of stale values inside one statement: {(name, start) of a run: finding key}. A run is tainted by F1 if it made a
    late tracked read (see late_read), by F19 if it read untracked a node that was still scheduled, or -- transitively -- if it read
    a value that was produced by a tainted run of the same statement."""
    spans = run_spans(events)
    starts = {}
    for r in spans:
        starts.setdefault(r["name"], []).append(r["start"])
    taint = {}
    for r in sorted(spans, key=lambda r: r["end"]):
        key = None
        if late_read(events, r, prev_nodes) is not None:
            key = "F1-late-read"
        else:
            for (x, _, _, eff, pos) in r["reads"]:
                if not eff and any(p > pos for p in starts.get(x, [])):
                    key = "F19-untracked-stale-read"
                    break
        if key is None:
            for (x, _, _, _, pos) in r["reads"]:
                prod = [q for q in spans if q["name"] == x and q["end"] < pos]
                if prod:
                    k2 = taint.get((x, max(prod, key=lambda q: q["end"])["start"]))
                    if k2:
                        key = k2
                        break
        if key:
            taint[(r["name"], r["start"])] = key
    return taint


def prev_nodes_of(steps, k):
    return steps[k - 1]["snap"]["nodes"] if k > 0 and steps[k - 1]["snap"] else {}


def last_run_of(steps, upto, name):
    for k in range(upto, -1, -1):
        rs = [r for r in run_spans(steps[k]["events"]) if r["name"] == name]
        if rs:
            return k, rs[-1]
    return None, None


def is_pure(body):
    """the computation reads state only through tracked reads: no on(..), a tracked-only result expression, and statements that only
    create signals / memos / selectors which are themselves of that kind (a computation may own what it reads: it must still re-run
    when its own child changes)"""
    def creating(st):
        if st[0] == "signal":
            return tracked_only(st[2])
        if st[0] == "memo":
            return is_pure(st[2])
        if st[0] == "selector":
            return is_pure(st[3])
        return False
    return body[1] is None and all(creating(st) for st in body[2]) and tracked_only(body[3])


def consistency_failures(prog, steps, only_steps=None):
    """C01 oracle: after each top-level statement every live pure tracked-only computation holds what its
    function yields from the current values (selectors: up to their equality); effects: last observed value."""
    comps = computations(prog)
    fails = []
    last_eff = {}
    for k, st in enumerate(steps):
        for l in st["events"]:
            if l.startswith("eff "):
                f = l.split(" ")
                last_eff[int(f[1])] = int(f[2])
        if st["snap"] is None:
            break
        if only_steps is not None and k not in only_steps:
            continue
        nodes = st["snap"]["nodes"]

        def val(x):
            n = nodes.get(x)
            if n is None or not n["alive"] or n["value"] is None:
                raise Undefined(x)
            return n["value"]

        for name, (kind, kk, body, depth) in comps.items():
            n = nodes.get(name)
            if n is None or not n["alive"] or not is_pure(body):
                continue
            try:
                fresh, _ = ref_eval(body[3], val)
            except Undefined:
                continue
            if kind == "effect":
                have = last_eff.get(name)
                ok = have == fresh
            elif kind == "selector" and kk != 0:
                have = n["value"]
                ok = have % kk == fresh % kk
            else:
                have = n["value"]
                ok = have == fresh
            if not ok:
                ks, run = last_run_of(steps, k, name)
                lr = late_read(steps[ks]["events"], run, prev_nodes_of(steps, ks)) if run else None
                known = "F1-late-read" if lr is not None else None
                if known is None and run:
                    # a program name can denote several live nodes (a computation created through run_in under another owner is
                    # created again when its creator re-runs): any run carrying that name in that statement may be the one the
                    # snapshot shows
                    tm = taint_map(steps[ks]["events"], prev_nodes_of(steps, ks))
                    keys = [tm.get((r["name"], r["start"])) for r in run_spans(steps[ks]["events"]) if r["name"] == name]
                    known = "F1-late-read" if "F1-late-read" in keys else None   # tracked-only computations: only a (transitive) late subscription can explain it
                fails.append({"oracle": "consistency", "step": k, "node": name, "kind": kind, "holds": have,
                              "fresh_value": fresh, "dirty": n["dirty"], "known": known, "late_read_of": lr})
    return fails


def runtime_panic_failures(prog, steps):
    fails = []
    for k, st in enumerate(steps):
        if st["panic"] == "RUNTIME":
            fails.append({"oracle": "no-runtime-panic", "step": k, "known": None})
    return fails


# ---------------------------------------------------------------------------------------

def minimise(binp, prog, failing):
    """greedy delta-debugging on top-level statements: drop statements while `failing(prog)` stays true"""
    cur = list(prog)
    changed = True
    while changed and len(cur) > 1:
        changed = False
        for i in range(len(cur) - 1, -1, -1):
            cand = cur[:i] + cur[i + 1:]
            try:
                if failing(cand):
                    cur = cand
                    changed = True
            except Exception:
                pass
    return cur


def via_foreign_copies(cases, kinds=("untrack", "batch"), every=1):
    """for the cases whose program contains a `batch` / `untrack` statement: a copy that the driver runs as an `@F` scenario (those
    statements are entered from inside a second, unrelated root). The model, the oracles and the property do not change"""
    out = []
    n = 0
    for tag, prog in cases:
        text = reactive.sx_stmts(prog)
        if any("(%s " % k in text for k in kinds):
            n += 1
            if n % every == 0:
                out.append((tag + "@F", reactive.ViaForeign(prog)))
    return out


def run(pid, argv, *, module, theorems, gen, oracle, rule, nontrivial, extra_targets=(), trusted=(), assumptions=(),
        level=None, allow_axioms=(), bridge=0, extra_obligations=None):
    if level is None:
        level = "proof" if module else "other"
    a, seed = vlib.args(argv)
    chk = vlib.Check(pid, a.tier, seed, level)
    rng = random.Random(seed * 1000003 + sum(ord(c) for c in pid))
    chk.trusted = ["Coq 8.16.1 kernel + vm_compute",
                   "hand-written model coq/theories/Reactive/Interp.v, tied to the code by this correspondence run",
                   "harness/reactive-driver (interpreter of the scenario language over the real API, canonical printer)",
                   "verif hook module of sycamore-reactive (read-only snapshot)",
                   "tools/reactive*.py, tools/rcheck.py (generators, comparer, oracles)",
                   "modelled, not verified: RefCell dynamic borrows, Box<dyn Any> downcasts; slotmap: Interp.v uses fresh ids, the versioned keys themselves are modelled in Reactive/Arena.v (theorems Props/C04a.v: they behave as a fresh supply) and compared with the real arena by harness/arena-driver in C04"] + list(trusted)
    chk.assumptions = list(assumptions)
    chk.rule = rule
    broken = []

    targets = ["theories/Reactive/Show.vo"] + list(extra_targets)
    if module:
        targets += ["theories/Props/%s.vo" % m for m in module.split("+")]
        ok, msg = vlib.proof_step(chk, module, targets, theorems, allow_axioms)
        if not ok:
            broken.append("theorem: " + msg)
            okm, outm = vlib.coq_make(["theories/Reactive/Show.vo"])
            if not okm:
                broken.append("model does not compile")
    else:
        chk.checker_cmd = "make -C coq " + " ".join(targets)
        ok, out = vlib.coq_make(targets)
        chk.obligation("coq build " + " ".join(targets), ok, out)
        if not ok:
            broken.append("model does not compile: " + out[-800:])

    extra_inputs = []
    if extra_obligations:
        for ob in extra_obligations():
            name, ok, detail = ob[0], ob[1], ob[2]
            chk.obligation(name, ok, detail)
            if not ok:
                if len(ob) > 3 and ob[3] is not None:
                    extra_inputs.append({"obligation": name, "input": ob[3]})      # a concrete failing input on the real code
                else:
                    broken.append(name + ": " + detail[:600])

    binp = reactive.build_driver(chk)
    if not binp:
        chk.violation({"property": pid, "broken": "harness build"}, no_input=True)
        return chk.finish()

    cases = load_corpus(pid) + gen(a.tier, rng)
    progs = [p for _, p in cases]
    try:
        impl_raw = reactive.run_impl(binp, progs)
    except RuntimeError as e:
        chk.violation({"property": pid, "broken": "driver run", "detail": str(e)[-2000:]}, no_input=True)
        return chk.finish()
    model = None
    if not any(b.startswith("model does not compile") for b in broken):
        try:
            # the model disposes the root scope at the end of every scenario, as the driver does through the RootHandle
            model = reactive.run_model(pid, [p + [("dispose", 0)] for p in progs])
        except RuntimeError as e:
            broken.append("model evaluation: " + str(e)[-600:])
            chk.obligation("model evaluation", False, str(e))

    # model-to-model bridge: the pure-callback model on which the theorems are proved vs the runtime model
    if bridge and model is not None:
        pref = []
        for _, prog in cases:
            for i, st in enumerate(prog):
                if st[0] == "set" and st[2][0] == "lit" and len(pref) < bridge:
                    pref.append(prog[:i + 1])
        try:
            pre = reactive.PRE + "From Syc Require Import Reactive.Bridge.\n"
            chunk = 25
            exprs = ["bridge_run %d %s" % (reactive.FUEL, glist([reactive.cq_stmts(q) for q in pref[i:i + chunk]]))
                     for i in range(0, len(pref), chunk)]
            outs = vlib.coq_eval(pid + "-bridge", pre, exprs, per_file=max(1, (len(exprs) + 31) // 32))
            verdicts = "".join(outs)
            na, nd, nn = verdicts.count("A"), verdicts.count("D"), verdicts.count("N")
            chk.cov["bridge"] = {"prefixes": len(pref), "agree": na, "differ": nd, "not_applicable": nn}
            chk.obligation("bridge: pure-callback model = runtime model on %d write prefixes (%d applicable)" % (len(pref), na + nd),
                           nd == 0 and na > 0, "first differing prefix: %s" % (reactive.sx_stmts(pref[verdicts.index("D")]) if nd else ""))
            if nd or na == 0:
                broken.append("bridge between ReactivePure and Reactive/Interp differs on %d prefixes" % nd)
        except (RuntimeError, ValueError) as e:
            chk.obligation("bridge evaluation", False, str(e))
            broken.append("bridge evaluation: " + str(e)[-400:])

    findings = vlib.load_findings(pid)
    fkeys = {f["key"]: f for f in findings}
    mism = []
    orfail = []
    dist = {}
    for i, ((tag, prog), lines_all) in enumerate(zip(cases, impl_raw)):
        lines, root_events, root_status = reactive.split_root(lines_all)
        steps = steps_of(lines_all)
        key = reactive.sx_stmts(prog)
        chk.note_case(key, nontrivial(prog, steps))
        last = steps[-1]["panic"] if steps and steps[-1]["panic"] else "completed"
        dist[last] = dist.get(last, 0) + 1
        fam = tag.split(":")[0]
        dist["family:" + fam] = dist.get("family:" + fam, 0) + 1
        for f in oracle(prog, steps):
            f["case"] = i
            f["tag"] = tag
            if f.get("known") and f["known"] in fkeys:
                chk.known(fkeys[f["known"]], "e.g. case %s" % tag)
            else:
                f["program"] = key
                orfail.append(f)
        if model is not None:
            norm = reactive.normalize_impl(lines)
            # the model's program ends with the disposal of the root scope: its events must be those of the real root disposal
            mlines = model[i]
            completed = bool(lines) and lines[-1].startswith("snap ") and len(reactive.split_steps(mlines)) == len(prog) + 1
            if completed and root_events is not None:
                cut = max(j for j, l in enumerate(mlines[:-1]) if l.startswith("snap ")) + 1 if any(l.startswith("snap ") for l in mlines[:-1]) else 0
                m_root = [l for l in mlines[cut:] if not l.startswith("snap ") and not l.startswith("panic ")]
                m_status = "ok" if mlines[-1].startswith("snap ") else mlines[-1]
                r_norm = reactive.normalize_impl(root_events)
                if r_norm != m_root or root_status.startswith("ok") != (m_status == "ok"):
                    mism.append({"case": i, "tag": tag, "program": key, "what": "disposal of the root (RootHandle::dispose) at the end of the scenario",
                                 "impl": r_norm[:6] + [root_status], "model": m_root[:6] + [m_status]})
                mlines = mlines[:cut]
            model[i] = mlines
            if norm != model[i]:
                d = next((j for j, (x, y) in enumerate(zip(norm, model[i])) if x != y), min(len(norm), len(model[i])))
                mism.append({"case": i, "tag": tag, "program": key, "first_difference_at_line": d,
                             "impl": norm[d:d + 3], "model": model[i][d:d + 3]})
    chk.traces = len(cases) if model is not None else 0
    chk.cov["distribution"] = dist
    chk.obligation("correspondence: model = implementation on %d scenarios" % len(cases), model is not None and not mism, str(mism[:2]))
    chk.obligation("oracle (property restated) on implementation output", not orfail, str(orfail[:2]))
    for i in (0, len(cases) // 3, len(cases) - 1):
        chk.sample({"tag": cases[i][0], "program": reactive.sx_stmts(cases[i][1]), "impl_last_line": impl_raw[i][-1]})

    if orfail:
        # minimise the first failure by dropping top-level statements
        f0 = min(orfail, key=lambda f: len(f["program"]))
        prog0 = cases[f0["case"]][1]

        def failing(cand):
            st = steps_of(reactive.run_impl(binp, [cand])[0])
            return any(not (g.get("known") in fkeys) and g["oracle"] == f0["oracle"] for g in oracle(cand, st))
        small = minimise(binp, prog0, failing)
        lines = reactive.run_impl(binp, [small])[0]
        chk.violation({"property": pid, "kind": "oracle failure on implementation output", "failure": {k: v for k, v in f0.items() if k != "program"},
                       "program": reactive.sx_stmts(prog0), "minimised_program": reactive.sx_stmts(small),
                       "minimised_program_json": small, "implementation_output": lines,
                       "other_failures": len(orfail) - 1, "also_broken": broken})
    elif extra_inputs:
        chk.violation({"property": pid, "kind": "oracle failure on implementation output", "failure": extra_inputs[0], "also_broken": broken})
    elif mism or broken:
        chk.violation({"property": pid, "kind": "proof/correspondence broken, oracle clean on all inputs explored",
                       "broken": broken, "mismatches": mism[:5], "mismatch_count": len(mism)}, no_input=True)
    return chk.finish()


# ---------------------------------------------------------------------------------------
# further oracles

def written_signals(stmt, acc=None):
    if acc is None:
        acc = set()
    if stmt[0] == "set":
        acc.add(stmt[1])
    elif stmt[0] == "batch":
        for s in stmt[1]:
            written_signals(s, acc)
    return acc


def span_depths(spans):
    """depth of each run span inside other spans of the same step"""
    out = []
    for r in spans:
        d = sum(1 for o in spans if o is not r and o["start"] < r["start"] and o["end"] >= r["end"])
        out.append(d)
    return out


def glitch_failures(prog, steps):
    """C02 oracle (effect-write-free programs): per propagation each computation runs at most once, reads only
    settled derived values, and re-runs only if something it was subscribed to fired."""
    comps = computations(prog)
    single = single_instance_names(prog)
    fails = []
    for k, st in enumerate(steps):
        if st["snap"] is None or k >= len(prog):
            break
        stmt = prog[k]
        if stmt[0] not in ("set", "batch"):
            continue
        spans = run_spans(st["events"])
        depths = span_depths(spans)
        nodes = st["snap"]["nodes"]
        prev = steps[k - 1]["snap"]["nodes"] if k > 0 and steps[k - 1]["snap"] else {}
        # (a) at most one run per propagation
        seen = {}
        for r, d in zip(spans, depths):
            # computations that existed before this statement (a first run on creation is not a re-run)
            if d == 0 and prev.get(r["name"], {}).get("alive"):
                seen[r["name"]] = seen.get(r["name"], 0) + 1
        for name, c in seen.items():
            if c > 1:
                fails.append({"oracle": "run-once", "step": k, "node": name, "runs": c, "known": None})
        # (b) reads of derived nodes are settled
        taints = None
        for r in spans:
            for (x, v, syn, eff, pos) in r["reads"]:
                if x in comps and comps[x][0] in ("memo", "selector"):
                    n = nodes.get(x)
                    if n and n["alive"] and n["value"] is not None and n["value"] != v:
                        # the name may denote a NEW node at the end of the statement (its owner re-ran and created it again after this
                        # read); the instance that was read is then the old one, and an instance without tracked inputs is never out of
                        # date in the sense of the property ("one whose tracked inputs changed since it was computed")
                        recreated = any(q["name"] == x and q["start"] > pos and dq > 0 for q, dq in zip(spans, depths))
                        old_deps = [int(d) for d in prev.get(x, {}).get("deps", []) if d != "?"]
                        if recreated and not old_deps:
                            continue
                        # ... and neither is an old instance none of whose tracked inputs was written or re-computed in this statement:
                        # the new instance may hold another value only because of what it reads WITHOUT tracking
                        touched = set(written_signals(stmt)) | {q["name"] for q in spans}
                        if recreated and not (set(old_deps) & touched):
                            continue
                        # a selector is up to date up to its equality: an instance that kept its old value because the new one
                        # compared equal holds a different number than a freshly created instance would
                        kk = comps[x][1] if comps[x][0] == "selector" else 0
                        if recreated and kk and n["value"] % kk == v % kk:
                            continue
                        if taints is None:
                            taints = taint_map(st["events"], prev)
                        known = taints.get((r["name"], r["start"]))
                        if known is None and not eff and any(q["name"] == x and q["start"] > pos for q in spans):
                            known = "F19-untracked-stale-read"
                        fails.append({"oracle": "settled-read", "step": k, "reader": r["name"], "read": x, "saw": v,
                                      "settled": n["value"], "tracked": bool(eff), "known": known})
        # (c) every top-level re-run has a trigger among its previous subscriptions
        fired = set(written_signals(stmt))
        for r, d in zip(spans, depths):
            if d == 0:
                kind = comps.get(r["name"], ("?",))[0]
                if kind in ("memo", "effect"):
                    fired.add(r["name"])
                elif kind == "selector":
                    p, n = prev.get(r["name"]), nodes.get(r["name"])
                    if p and n and p["alive"] and n["alive"] and p["value"] != n["value"]:
                        fired.add(r["name"])
                    # the final snapshot may show a NEW instance of the name (its owner re-ran later in the statement): a selector
                    # also fired if some computation observed a value different from the one it had before the statement
                    elif p and p["alive"] and any(x == r["name"] and v != p["value"] and pos > r["end"]
                                                   for q in spans for (x, v, _, _, pos) in q["reads"]):
                        fired.add(r["name"])
        for r, d in zip(spans, depths):
            if d != 0:
                continue
            p = prev.get(r["name"])
            if not p or not p["alive"]:
                continue
            deps = set(int(x) for x in p["deps"] if x != "?")
            if not (deps & fired):
                known = None
                if p["dirty"]:
                    # left dirty by an earlier propagation: the aftermath of a late subscription (F1)
                    ks, run = last_run_of(steps, k - 1, r["name"])
                    if run and late_read(steps[ks]["events"], run, prev_nodes_of(steps, ks)) is not None:
                        known = "F1-late-read"
                fails.append({"oracle": "justified-rerun", "step": k, "node": r["name"], "previous_subscriptions": sorted(deps),
                              "fired": sorted(fired), "was_dirty": p["dirty"], "known": known})
            elif r["name"] in single and not p["dirty"]:
                # the property's letter: "re-runs only if something it read WITH TRACKING in its previous run was written / re-ran /
                # changed" -- a re-run that only a subscription to something else explains (the previous run read it without
                # tracking, or not at all) is not justified. Judged for names that denote one node only.
                ks, run = last_run_of(steps, k - 1, r["name"])
                if run and run["end"] is not None:
                    spec = {x for (x, v, syn, eff, pos) in run["reads"] if eff} | {x for (x, eff, pos) in run["tracks"] if eff}
                    if not (spec & fired):
                        fails.append({"oracle": "rerun-without-tracked-trigger", "step": k, "node": r["name"], "read_with_tracking_in_previous_run": sorted(spec),
                                      "subscriptions": sorted(deps), "fired": sorted(fired), "known": None})
    return fails


def subscription_failures(prog, steps, effect_write_free=True):
    """C03 oracle: (1) after a run the subscriptions are exactly the specification-level tracked reads of that run;
    (2) a write re-runs every subscriber of the written signal and of every derived node that fired."""
    comps = computations(prog)
    fails = []
    all_single = None
    for k, st in enumerate(steps):
        if st["snap"] is None:
            break
        spans = run_spans(st["events"])
        nodes = st["snap"]["nodes"]
        last = {}
        for r in spans:
            last[r["name"]] = r
        for name, r in last.items():
            n = nodes.get(name)
            if not n or not n["alive"] or r["end"] is None:
                continue
            exp = [x for (x, v, syn, eff, pos) in r["reads"] if eff] + [x for (x, eff, pos) in r["tracks"] if eff]
            exp = sorted(str(x) for x in exp if nodes.get(x, {}).get("alive"))
            got = sorted(n["deps"])
            if exp != got:
                fails.append({"oracle": "subscriptions=tracked-reads", "step": k, "node": name, "tracked_reads": exp,
                              "subscriptions": got, "known": None})
        # (1') the other direction of every edge: a node's subscriber list holds exactly one entry per entry of a live computation's
        # dependency list (both are per-read lists) -- a subscriber entry that no dependency list accounts for is a subscription to
        # something the subscriber's latest run did not read (seed C03-g). Only for programs in which every name denotes one node.
        if all_single is None:
            all_single = set(comps) <= single_instance_names(prog) and not any(x == "?" for n in nodes.values() if n.get("alive") for x in n["deps"])
        if all_single and not any(x == "?" for n in nodes.values() if n.get("alive") for x in n["deps"]):
            for name, n in nodes.items():
                if not n.get("alive"):
                    continue
                want = sum(m["deps"].count(str(name)) for m in nodes.values() if m.get("alive"))
                got = n["dependents"] - n["dead_dependents"]
                if got != want:
                    fails.append({"oracle": "subscriber-entries=dependency-entries", "step": k, "node": name, "subscriber_entries": got,
                                  "dependency_entries_naming_it": want, "known": None})
        if k >= len(prog) or prog[k][0] != "set" or k == 0 or not steps[k - 1]["snap"]:
            continue
        prev = steps[k - 1]["snap"]["nodes"]
        ran = {r["name"] for r in spans}
        fired = {prog[k][1]}
        for r in spans:
            kind = comps.get(r["name"], ("?",))[0]
            if kind in ("memo", "effect"):
                fired.add(r["name"])
            elif kind == "selector":
                p, n = prev.get(r["name"]), nodes.get(r["name"])
                if p and n and p["alive"] and n["alive"] and p["value"] != n["value"]:
                    fired.add(r["name"])
        for name, p in prev.items():
            n = nodes.get(name)
            if not (p["alive"] and n and n["alive"]) or name not in comps:
                continue
            deps = set(int(x) for x in p["deps"] if x != "?")
            if deps & fired and name not in ran:
                fails.append({"oracle": "subscriber-must-rerun", "step": k, "node": name, "subscriptions": sorted(deps),
                              "fired": sorted(fired), "known": None})
    return fails


def single_instance_names(prog):
    """names that denote at most one live node at a time: declared once, on a path of top-level statements, scopes, computation
    bodies, batch / untrack / component / if blocks only (no run_in under another owner, no cleanup callback)"""
    count, ok = {}, set()

    def walk(ss, clean):
        for s in ss:
            k = s[0]
            if k in ("signal", "memo", "effect", "selector", "scope"):
                count[s[1]] = count.get(s[1], 0) + 1
                if clean:
                    ok.add(s[1])
            if k in ("memo", "effect"):
                walk(s[2][2], clean)
            elif k == "selector":
                walk(s[3][2], clean)
            elif k == "scope":
                walk(s[2], clean)
            elif k in ("oncleanup", "runin"):
                walk(s[2], False)
            elif k in ("batch", "untrack", "component"):
                walk(s[1], clean)
            elif k == "if":
                walk(s[2], clean)
                walk(s[3], clean)
            else:
                for a in s[1:]:
                    if isinstance(a, list) and a and isinstance(a[0], tuple):
                        walk(a, False)
    walk(prog, True)
    return {x for x in ok if count.get(x) == 1}


def write_rerun_failures(prog, steps):
    """C03, the 'if' direction at the position of every write (also a write made by a computation while another write is being
    propagated): a computation whose most recent completed run read the written signal with tracking starts a new run after the
    write, before the top-level statement returns. Only for signals declared once at top level and computations that denote one
    node at a time; a computation that is running at the moment of the write is not required to re-run itself."""
    comps = computations(prog)
    single = single_instance_names(prog)
    top_signals = {s[1] for s in prog if s[0] == "signal"} & single
    fails = []
    for k, st in enumerate(steps):
        if st["snap"] is None:
            break
        ev = st["events"]
        writes = [(i, int(l.split(" ")[1])) for i, l in enumerate(ev) if l.startswith("write ")]
        if not writes:
            continue
        spans = run_spans(ev)
        nodes = st["snap"]["nodes"]
        prev = prev_nodes_of(steps, k)
        for (p, t) in writes:
            if t not in top_signals:
                continue
            for name in comps:
                if name not in single:
                    continue
                n = nodes.get(name)
                if not n or not n["alive"]:
                    continue
                mine = [r for r in spans if r["name"] == name]
                if any(r["start"] < p and (r["end"] is None or r["end"] > p) for r in mine):
                    continue                                   # running at the moment of the write
                before = [r for r in mine if r["end"] is not None and r["end"] < p]
                if before:
                    r = max(before, key=lambda r: r["end"])
                    sub = any(x == t and eff for (x, _, _, eff, _) in r["reads"]) or any(x == t and eff for (x, eff, _) in r["tracks"])
                else:
                    q = prev.get(name)
                    sub = bool(q and q["alive"] and str(t) in q["deps"])
                if sub and not any(r["start"] > p for r in mine):
                    fails.append({"oracle": "write-reruns-subscriber", "step": k, "node": name, "written": t, "write_at_event": p,
                                  "known": None})
    return fails


def static_owners(prog):
    """name -> set of the names of the scopes / computations that lexically enclose its declaration (they own it, directly or not)"""
    own = {}

    def walk(ss, chain):
        for s in ss:
            k = s[0]
            if k in ("signal", "memo", "effect", "selector", "scope", "providein"):
                own.setdefault(s[1], set()).update(chain)
            if k in ("memo", "effect"):
                walk(s[2][2], chain + [s[1]])
            elif k == "selector":
                walk(s[3][2], chain + [s[1]])
            elif k == "scope":
                walk(s[2], chain + [s[1]])
            elif k == "providein":
                walk(s[4], chain + [s[1]])
            elif k in ("batch", "untrack", "component"):
                walk(s[1], chain)
            elif k == "if":
                walk(s[2], chain)
                walk(s[3], chain)
    walk(prog, [0])
    return own


def destroyed_runs_again(prog, steps):
    """C04: no destroyed memo or effect ever runs again -- also not in the statement in which it is destroyed: once a disposal of the
    computation itself or of a scope that lexically owns it has COMPLETED (the driver logs where every disposal starts and ends), no
    re-run of it may start. Only for names that denote one node at a time; a run nested in another run is a creation, not a re-run."""
    comps = computations(prog)
    single = single_instance_names(prog)
    own = static_owners(prog)
    # curscope aliases: (curscope a) inside the block of x binds a to x
    alias = {}

    def walk(ss, cur):
        for s in ss:
            k = s[0]
            if k == "curscope":
                alias[s[1]] = cur
            elif k in ("memo", "effect"):
                walk(s[2][2], s[1])
            elif k == "selector":
                walk(s[3][2], s[1])
            elif k == "scope":
                walk(s[2], s[1])
            elif k == "providein":
                walk(s[4], s[1])
            elif k in ("batch", "untrack", "component", "oncleanup"):
                walk(s[1] if k != "oncleanup" else s[2], cur)
            elif k == "if":
                walk(s[2], cur)
                walk(s[3], cur)
    walk(prog, 0)
    fails = []
    for k, st in enumerate(steps):
        ev = st["events"]
        # (the END of a disposal: while it is in progress, descendants that have not been reached yet are still alive and may run)
        disps = [(i, alias.get(int(l.split(" ")[1]), int(l.split(" ")[1]))) for i, l in enumerate(ev) if l.startswith("dispend ")]
        if not disps:
            continue
        spans = run_spans(ev)
        depths = span_depths(spans)
        prev = prev_nodes_of(steps, k)
        for r, d in zip(spans, depths):
            n = r["name"]
            # a RE-run: the computation existed before this statement (a first run is not nested either when it is declared in a scope)
            if d != 0 or n not in comps or n not in single or not prev.get(n, {}).get("alive"):
                continue
            for (i, y) in disps:
                recreated = any(q["name"] == n and dq > 0 and i < q["start"] < r["start"] for q, dq in zip(spans, depths))
                if i < r["start"] and not recreated and (y == n or y in own.get(n, ())) and y in single | {0}:
                    fails.append({"oracle": "destroyed-computation-runs-again", "step": k, "node": n, "disposed": y, "disposal_at_event": i, "run_at_event": r["start"], "known": None})
                    break
    return fails


def steps_of(lines_all):
    """steps of a scenario, plus a final pseudo-step for what happened while the root was disposed through its RootHandle"""
    lines, root_events, root_status = reactive.split_root(lines_all)
    steps = reactive.split_steps(lines)
    if root_events is not None:
        ok = root_status.startswith("ok")
        stale = root_status.split("stale_alive=")[1] if "stale_alive=" in root_status else None
        steps.append({"events": root_events, "snap": None, "panic": None if ok else root_status, "root_dispose": True, "stale_alive": stale})
    return steps


def ownership_failures(prog, steps):
    """C04 oracle (accounting): cleanups never run more often than registered, and exactly as often once the root is
    disposed; live nodes = nodes reachable through ownership; no dead subscribers; nothing alive after root disposal."""
    fails = []
    reg, cl = {}, {}
    for k, st in enumerate(steps):
        for l in st["events"]:
            f = l.split(" ")
            if f[0] == "reg":
                reg[f[1]] = reg.get(f[1], 0) + 1
            elif f[0] == "cleanup":
                cl[f[1]] = cl.get(f[1], 0) + 1
                if cl[f[1]] > reg.get(f[1], 0):
                    fails.append({"oracle": "cleanup-at-most-once", "step": k, "label": f[1], "known": None})
        if st.get("root_dispose"):
            # RootHandle::dispose at the end of the scenario: it must complete, and every cleanup registered so far has run exactly once
            if st["panic"] and "RUNTIME" in st["panic"]:
                fails.append({"oracle": "root-disposal-completes", "step": "end (RootHandle::dispose)", "panic": st["panic"], "known": None})
            if st["panic"]:
                break          # a cleanup of the program panicked by its own fault (e.g. it read a signal it had disposed): nothing to demand
            if st.get("stale_alive") not in (None, "0"):
                fails.append({"oracle": "destroyed-handles-not-alive", "step": "end (after RootHandle::dispose, new nodes created in the re-initialised root)",
                              "handles_reporting_alive": st["stale_alive"], "known": None})
            for lab, c in reg.items():
                if cl.get(lab, 0) != c:
                    fails.append({"oracle": "cleanup-exactly-once", "step": "end (RootHandle::dispose)", "label": lab, "registered": c, "ran": cl.get(lab, 0), "known": None})
            break
        if st["snap"] is None:
            break
        sn = st["snap"]
        if sn["n"] != sn["r"]:
            fails.append({"oracle": "live-nodes=owned-nodes", "step": k, "live": sn["n"], "reachable_from_root": sn["r"], "known": None})
        for name, n in sn["nodes"].items():
            if n["alive"] and n["dead_dependents"]:
                fails.append({"oracle": "no-dead-subscribers", "step": k, "node": name, "dead": n["dead_dependents"], "known": None})
        root = sn["nodes"].get(0)
        if root is not None and not root["alive"]:
            if sn["n"] != 0:
                fails.append({"oracle": "root-disposal-frees-everything", "step": k, "live": sn["n"], "known": None})
            if any(n["alive"] for n in sn["nodes"].values()):
                fails.append({"oracle": "destroyed-handles-not-alive", "step": k, "known": None})
            for lab, c in reg.items():
                if cl.get(lab, 0) != c:
                    fails.append({"oracle": "cleanup-exactly-once", "step": k, "label": lab, "registered": c, "ran": cl.get(lab, 0), "known": None})
    return fails


def created_here(events, i, prev):
    """is event i nested inside the run of a computation that did not exist before this step?"""
    open_runs = []
    for l in events[:i]:
        f = l.split(" ")
        if f[0] == "run":
            open_runs.append(int(f[1]))
        elif f[0] == "end" and open_runs and open_runs[-1] == int(f[1]):
            open_runs.pop()
    return any(not prev.get(x, {}).get("alive") for x in open_runs)


def batch_failures(prog, steps):
    """C10 oracle: nothing runs between the markers of an outermost batch; reads of derived nodes inside the batch
    see pre-batch values; the flush runs each computation at most once."""
    comps = computations(prog)
    fails = []
    for k, st in enumerate(steps):
        if k >= len(prog) or prog[k][0] != "batch":
            continue
        depth = 0
        prev = steps[k - 1]["snap"]["nodes"] if k > 0 and steps[k - 1]["snap"] else {}
        after = None
        for i, l in enumerate(st["events"]):
            if l == "batch 1":
                depth += 1
            elif l == "batch 0":
                depth -= 1
                if depth == 0 and after is None:
                    after = st["events"][i + 1:]
            elif depth > 0 and l.startswith("run "):
                x = int(l.split(" ")[1])
                # the first run of a computation created inside the batch body is not a reaction
                if prev.get(x, {}).get("alive") and not created_here(st["events"], i, prev):
                    fails.append({"oracle": "nothing-runs-inside-batch", "step": k, "event": l, "batch_depth": depth, "known": None})
            elif depth > 0 and after is None and l.startswith("read "):
                f = l.split(" ")
                x, v = int(f[1]), int(f[2])
                p = prev.get(x)
                if x in comps and p and p["alive"] and p["value"] is not None and p["value"] != v:
                    fails.append({"oracle": "derived-values-frozen-inside-batch", "step": k, "node": x, "saw": v,
                                  "pre_batch": p["value"], "known": None})
        runs = {}
        after = after or []
        for r, d in zip(run_spans(after), span_depths(run_spans(after))):
            if d == 0:
                runs[r["name"]] = runs.get(r["name"], 0) + 1
        for name, c in runs.items():
            if c > 1:
                fails.append({"oracle": "flush-runs-once", "step": k, "node": name, "runs": c, "known": None})
    return fails
