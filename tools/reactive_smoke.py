"""debug helper: random programs through model and implementation, report first differences"""
import sys, os, time
sys.path.insert(0, os.path.dirname(os.path.abspath(__file__)))
import vlib, reactive, reactive_gen

n = int(sys.argv[1]) if len(sys.argv) > 1 else 200
seed = int(sys.argv[2]) if len(sys.argv) > 2 else 1
feats = dict(reactive_gen.ALL_FEATURES)
for a in sys.argv[3:]:
    k, v = a.split("=")
    feats[k] = float(v)
progs = reactive_gen.random_programs(seed, n, feats)
ok, out = vlib.coq_make(["theories/Reactive/Show.vo"])
assert ok, out
okb, out, binp = vlib.cargo_build("reactive-driver")
assert okb, out
t = time.time()
impl = reactive.run_impl(binp, progs)
t1 = time.time()
model = reactive.run_model("smoke", progs)
t2 = time.time()
print("impl %.1fs model %.1fs" % (t1 - t, t2 - t1))
bad = 0
panics = {}
for p, a, b in zip(progs, impl, model):
    a = reactive.normalize_impl(a)
    last = a[-1]
    if last.startswith("panic"):
        panics[last] = panics.get(last, 0) + 1
    if b[-1].startswith("panic OUT"):
        panics["model-fuel"] = panics.get("model-fuel", 0) + 1
    if a != b:
        bad += 1
        if bad <= 3:
            print("PROGRAM", reactive.sx_stmts(p))
            for x, y in zip(a, b):
                print(("   " if x == y else "!! "), x, "  ||  ", y)
            if len(a) != len(b):
                print("lengths", len(a), len(b), a[len(b):][:3], b[len(a):][:3])
print("mismatches %d / %d" % (bad, n), panics)
