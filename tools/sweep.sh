#!/bin/bash
# usage: tools/sweep.sh <tier> <seed>...   -- every check with every seed; prints one line per (check, seed); evidence restored afterwards
tier=$1; shift
bak=$(mktemp -d /tmp/evbak.XXXXXX)
cp -a /verif/evidence/. "$bak"/
for sd in "$@"; do
  for c in C01 C02 C03 C04 C05 C06 C07 C08 C09 C10 C11 C12 C13 C14 C15 C16 C17 C18 C19; do
    VERIF_SEED=$sd python3 /verif/tools/check.py $c --tier $tier 2>&1 | grep -E "^\[C..\] (OK|FAIL)|VIOLATION" | sed "s/^/seed=$sd /"
  done
done
rm -rf /verif/evidence; mkdir -p /verif/evidence; cp -a "$bak"/. /verif/evidence/; rm -rf "$bak"
