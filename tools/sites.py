"""Source-derived tie for C11: every place where sycamore-reactive indexes the node table without a liveness check
(`nodes[..]`, `nodes.borrow()[..]`, `nodes_mut[..]`) must be one of the sites the runtime model accounts for (an `Err (Runtime k)`
branch of coq/theories/Reactive/Interp.v, proved unreachable by C11_no_runtime_panic). The scan is textual: function name +
normalised indexing expression, outside #[cfg(test)] modules and comments. A site that appears, disappears or moves to another
function makes the C11 check report that the theorem no longer covers the code."""
import json
import os
import re

SRC = "/repo/packages/sycamore-reactive/src"
FILES = ["root.rs", "node.rs", "signals.rs", "memos.rs", "effects.rs", "context.rs", "utils.rs"]
IDX = re.compile(r"\b(nodes_mut|nodes|self\.nodes\.borrow(?:_mut)?\(\)|self\.1\.nodes\.borrow(?:_mut)?\(\)|root\.nodes\.borrow(?:_mut)?\(\))\s*\[([^\]]+)\]")
FN = re.compile(r"^\s*(?:pub(?:\([a-z]+\))?\s+)?(?:unsafe\s+)?fn\s+([A-Za-z0-9_]+)")


def scan():
    out = []
    for f in FILES:
        path = os.path.join(SRC, f)
        if not os.path.exists(path):
            continue
        fn = None
        in_tests = False
        for line in open(path, encoding="utf8"):
            code = line.split("//")[0]
            if "#[cfg(test)]" in code:
                in_tests = True
            if in_tests:
                continue
            m = FN.match(code)
            if m:
                fn = m.group(1)
            for m in IDX.finditer(code):
                out.append("%s::%s::%s[%s]" % (f, fn, re.sub(r"\s+", "", m.group(1)).replace("self.1.", "self."), re.sub(r"\s+", "", m.group(2))))
    return sorted(out)


def expected():
    return sorted(json.load(open(os.path.join(os.path.dirname(os.path.abspath(__file__)), "sites_expected.json")))["sites"])


def diff():
    got, exp = scan(), expected()
    extra = [x for x in got if x not in exp] + [x for x in set(got) if got.count(x) > exp.count(x)]
    missing = [x for x in exp if x not in got] + [x for x in set(exp) if exp.count(x) > got.count(x)]
    return sorted(set(extra)), sorted(set(missing))


if __name__ == "__main__":
    for s in scan():
        print(s)
