"""Random / structured generators of reactive scenarios (see tools/reactive.py for the AST)."""
import random


class Gen:
    def __init__(self, rng, feats, max_nodes=8):
        self.rng = rng
        self.f = feats
        self.counter = 0
        self.label = 0
        self.max_nodes = max_nodes
        self.created = 0
        self.nest = 0

    def fresh(self):
        self.counter += 1
        return self.counter

    def fresh_label(self):
        self.label += 1
        return self.label

    def has(self, k):
        return self.f.get(k, 0) > 0 and self.rng.random() < self.f[k]

    # vars: list of (name, kind) kind in sig | read | handle | cell
    def readable(self, vars):
        return [n for n, k in vars if k in ("sig", "read")]

    def expr(self, vars, depth=2, untracked_ok=True):
        r = self.rng
        rd = self.readable(vars)
        if depth == 0 or not rd or r.random() < 0.25:
            if rd and r.random() < 0.75:
                x = r.choice(rd)
                if untracked_ok and self.has("untracked"):
                    return ("getu", x)
                return ("get", x)
            cells = [n for n, k in vars if k == "cell"]
            if cells and self.has("cell"):
                return ("cell", r.choice(cells))
            return ("lit", r.randint(0, 3))
        c = r.random()
        if c < 0.35:
            return ("add", self.expr(vars, depth - 1, untracked_ok), self.expr(vars, depth - 1, untracked_ok))
        if c < 0.45:
            return ("sub", self.expr(vars, depth - 1, untracked_ok), self.expr(vars, depth - 1, untracked_ok))
        if c < 0.75:
            return ("ite", ("lt", ("lit", r.randint(0, 2)), self.expr(vars, depth - 1, untracked_ok)),
                    self.expr(vars, depth - 1, untracked_ok), self.expr(vars, depth - 1, untracked_ok))
        if c < 0.85:
            return ("mod", self.expr(vars, depth - 1, untracked_ok), r.choice([2, 3]))
        if c < 0.92:
            return ("eq", self.expr(vars, depth - 1, untracked_ok), self.expr(vars, depth - 1, untracked_ok))
        return ("mul", ("lit", r.randint(0, 2)), self.expr(vars, depth - 1, untracked_ok))

    def body(self, vars, depth, kind):
        r = self.rng
        ss = []
        inner = list(vars)
        if depth > 0 and self.has("curscope"):
            x = self.fresh()
            ss.append(("curscope", x))
            inner.append((x, "handle"))
        if depth > 0 and self.has("nested"):
            for _ in range(r.randint(1, 2)):
                s, inner = self.stmt(inner, depth - 1, in_callback=True)
                if s:
                    ss.append(s)
        if kind == "effect" and self.has("effect_write"):
            sigs = [n for n, k in inner if k == "sig"]
            if sigs:
                ss.append(("set", r.choice(sigs), self.expr(inner, 1)))
        if self.has("cleanup"):
            ss.append(("oncleanup", self.fresh_label(), self.cleanup_body(inner, depth)))
        if self.has("ctx_in_callback"):
            ss.append(("provide", r.randint(0, 2), ("lit", r.randint(0, 9))))
        if self.has("dispose_in_callback"):
            pos = r.randint(0, len(ss))
            bound = {n for n, _ in vars} | {s[1] for s in ss[:pos] if s[0] in ("signal", "memo", "selector", "effect", "scope", "curscope")}
            targets = [n for n, k in inner if k in ("handle", "sig", "read") and n in bound]
            if targets:
                ss.insert(pos, ("if", self.expr(vars, 1), [("dispose", r.choice(targets))], []))
        on = None
        rd = self.readable(vars)
        if rd and self.has("on"):
            on = r.sample(rd, min(len(rd), r.randint(1, 2)))
        return ("body", on, ss, self.expr(inner, 2))

    def cleanup_body(self, vars, depth):
        r = self.rng
        ss = []
        rd = self.readable(vars)
        if rd and r.random() < 0.5:
            ss.append(("log", ("getu", r.choice(rd)) if r.random() < 0.5 else ("get", r.choice(rd))))
        if self.has("dispose_in_cleanup"):
            targets = [n for n, k in vars if k in ("handle",)]
            if targets:
                ss.append(("dispose", r.choice(targets)))
        return ss

    def stmt(self, vars, depth, in_callback=False):
        """returns (stmt or None, new vars)"""
        r = self.rng
        choices = []
        if self.created < self.max_nodes:
            choices += [("signal", 3), ("memo", 4)]
            if self.f.get("selector"):
                choices.append(("selector", 2))
            if self.f.get("effect"):
                choices.append(("effect", 3))
            if self.f.get("scope"):
                choices.append(("scope", 2))
        if self.f.get("context"):
            choices += [("provide", 1.5), ("usectx", 2)]
        if self.f.get("runin") and any(k == "handle" for _, k in vars):
            choices.append(("runin", 1))
        if self.f.get("cell"):
            choices.append(("cellnew", 0.5))
            if any(k == "cell" for _, k in vars):
                choices.append(("cellset", 0.5))
        if self.f.get("log") and self.readable(vars):
            choices.append(("log", 1))
        if self.f.get("track") and self.readable(vars):
            choices.append(("track", 0.5))
        if self.f.get("untrack_block"):
            choices.append(("untrack", 0.7))
            choices.append(("component", 0.7))
        if self.f.get("cleanup"):
            choices.append(("oncleanup", 1))
        if self.nest >= 3:
            choices = [c for c in choices if c[0] not in ("scope", "runin", "untrack", "component")]
        if not choices:
            return None, vars
        kinds, ws = zip(*choices)
        k = r.choices(kinds, ws)[0]
        if k in ("scope", "runin", "untrack", "component"):
            self.nest += 1
            try:
                return self.block_stmt(k, vars, depth, in_callback)
            finally:
                self.nest -= 1
        return self.simple_stmt(k, vars, depth, in_callback)

    def block_stmt(self, k, vars, depth, in_callback):
        r = self.rng
        return self.simple_stmt(k, vars, depth, in_callback)

    def simple_stmt(self, k, vars, depth, in_callback):
        r = self.rng
        if k == "signal":
            x = self.fresh()
            self.created += 1
            return ("signal", x, ("lit", r.randint(0, 3))), vars + [(x, "sig")]
        if k in ("memo", "selector", "effect"):
            x = self.fresh()
            self.created += 1
            b = self.body(vars, depth, k)
            if k == "memo":
                return ("memo", x, b), vars + [(x, "read")]
            if k == "selector":
                return ("selector", x, r.choice([0, 2, 3]), b), vars + [(x, "read")]
            return ("effect", x, b), vars + [(x, "handle")]
        if k == "scope":
            x = self.fresh()
            self.created += 1
            inner = list(vars)
            ss = []
            for _ in range(r.randint(1, 3)):
                s, inner = self.stmt(inner, depth, in_callback)
                if s:
                    ss.append(s)
            return ("scope", x, ss), vars + [(x, "handle")]
        if k == "provide":
            return ("provide", r.randint(0, 2), ("lit", r.randint(0, 9))), vars
        if k == "usectx":
            return ("usectx", r.randint(0, 2)), vars
        if k == "runin":
            h = r.choice([n for n, kk in vars if kk == "handle"])
            inner = list(vars)
            ss = []
            for _ in range(r.randint(1, 2)):
                s, inner = self.stmt(inner, depth, in_callback)
                if s:
                    ss.append(s)
            return ("runin", h, ss), vars
        if k == "cellnew":
            x = self.fresh()
            return ("cellnew", x, ("lit", r.randint(0, 3))), vars + [(x, "cell")]
        if k == "cellset":
            return ("cellset", r.choice([n for n, kk in vars if kk == "cell"]), self.expr(vars, 1)), vars
        if k == "log":
            return ("log", self.expr(vars, 1)), vars
        if k == "track":
            return ("track", r.choice(self.readable(vars))), vars
        if k in ("untrack", "component"):
            inner = list(vars)
            ss = []
            for _ in range(r.randint(1, 2)):
                s, inner = self.stmt(inner, depth, in_callback)
                if s:
                    ss.append(s)
            return (k, ss), vars
        if k == "oncleanup":
            return ("oncleanup", self.fresh_label(), self.cleanup_body(vars, depth)), vars
        return None, vars

    def op(self, vars, depth=0):
        """a history operation on the built graph"""
        r = self.rng
        sigs = [n for n, k in vars if k == "sig"]
        choices = [("set", 6)] if sigs else []
        if self.f.get("batch") and sigs:
            choices.append(("batch", 2))
        if self.f.get("dispose"):
            choices.append(("dispose", 1.2))
        if self.f.get("setsilent") and sigs:
            choices.append(("setsilent", 0.4))
        if self.f.get("late_create") and self.created < self.max_nodes + 3:
            choices.append(("create", 1))
        if self.f.get("runin_op") and any(k == "handle" for _, k in vars):
            choices.append(("runin", 0.7))
        if not choices:
            return None, vars
        kinds, ws = zip(*choices)
        k = r.choices(kinds, ws)[0]
        if k == "set":
            return ("set", r.choice(sigs), ("lit", r.randint(0, 3))), vars
        if k == "setsilent":
            return ("setsilent", r.choice(sigs), ("lit", r.randint(0, 3))), vars
        if k == "batch":
            ss = []
            for _ in range(r.randint(1, 3)):
                if depth < 2 and self.has("nested_batch"):
                    s, _ = self.op(vars, depth + 1)
                    if s and s[0] != "batch":
                        s = ("batch", [s])
                    if s:
                        ss.append(s)
                else:
                    ss.append(("set", r.choice(sigs), ("lit", r.randint(0, 3))))
                if self.readable(vars) and r.random() < 0.3:
                    ss.append(("log", ("getu", r.choice(self.readable(vars)))))
                if self.f.get("dispose_in_batch") and r.random() < self.f["dispose_in_batch"]:
                    t = [n for n, kk in vars if kk in ("handle", "sig", "read")]
                    if t:
                        ss.append(("dispose", r.choice(t)))
            return ("batch", ss), vars
        if k == "dispose":
            t = [n for n, kk in vars if kk in ("handle", "sig", "read")]
            if not t:
                return None, vars
            return ("dispose", r.choice(t)), vars
        if k == "create":
            return self.stmt(vars, 1)
        if k == "runin":
            h = r.choice([n for n, kk in vars if kk == "handle"])
            s, _ = self.stmt(vars, 1)
            return ("runin", h, [s] if s else []), vars
        return None, vars

    def program(self, n_build, n_ops, depth=2):
        vars = [(0, "handle")] if self.f.get("root_handle") else []
        ss = []
        for _ in range(n_build):
            s, vars = self.stmt(vars, depth)
            if s:
                ss.append(s)
        for _ in range(n_ops):
            s, vars = self.op(vars)
            if s:
                ss.append(s)
        return ss


ALL_FEATURES = {
    "untracked": 0.2, "selector": 1, "effect": 1, "nested": 0.3, "effect_write": 0.15, "scope": 1, "cleanup": 0.3,
    "dispose": 1, "batch": 1, "nested_batch": 0.3, "context": 1, "runin": 1, "on": 0.15, "cell": 1, "log": 1,
    "track": 1, "untrack_block": 1, "curscope": 0.3, "ctx_in_callback": 0.1, "setsilent": 1, "late_create": 1,
    "runin_op": 1, "root_handle": 1,
}


def random_programs(seed, n, feats, n_build=(3, 7), n_ops=(2, 6), max_nodes=8):
    rng = random.Random(seed)
    out = []
    for _ in range(n):
        g = Gen(rng, feats, max_nodes)
        out.append(g.program(rng.randint(*n_build), rng.randint(*n_ops)))
    return out
