"""View vocabulary shared by the SSR / DOM / hydration checks: python AST, renderers to the drivers'
s-expressions and to Gallina (coq/theories/Ssr/View.v), random generators, reference token stream."""
from vlib import glist

META = ["<", ">", "&", '"', "'", "-", "!", "/", "=", " ", "t", "é", " ", ";", "#", "&amp;", "<!--", "-->", "]]>",
        "<![CDATA[", "</div>", "<script>", "&lt;", "&#60;", "\n", "a", "<!-->", "--!>", "<x y=\"1\">", "&quot;", "\\"]
TAGS = ["div", "span", "p", "section", "my-el", "svg", "circle", "ul", "li"]
VOID = ["br", "input", "img"]
ATTR_NAMES = ["class", "id", "data-x", "title", "value", "aria-label", "href"]
BOOL_NAMES = ["disabled", "checked", "hidden"]


def hx(s):
    return "x" + s.encode("utf8").hex()


def sx_attr(a):
    if a[0] == "a":
        return "(a %s %s)" % (hx(a[1]), hx(a[2]))
    if a[0] == "adyn":
        return "(adyn %s %d)" % (hx(a[1]), a[2])
    if a[0] == "b":
        return "(b %s %d)" % (hx(a[1]), int(a[2]))
    return "(bdyn %s %d)" % (hx(a[1]), a[2])


def sx_views(vs):
    return " ".join(sx_view(v) for v in vs)


def sx_view(v):
    k = v[0]
    if k == "el":
        return "(el %s (%s) (%s))" % (hx(v[1]), " ".join(sx_attr(a) for a in v[2]), sx_views(v[3]))
    if k == "text":
        return "(text %s)" % hx(v[1])
    if k == "dyntext":
        return "(dyntext %d)" % v[1]
    if k == "dyn":
        return "(dyn %d (%s) (%s))" % (v[1], sx_views(v[2]), sx_views(v[3]))
    if k == "frag":
        return "(frag %s)" % sx_views(v[1])
    if k == "show":
        return "(show %d %s)" % (v[1], sx_views(v[2]))
    if k == "list":
        return "(list %s %d (%s))" % ("keyed" if v[1] else "indexed", v[2], sx_views(v[3]))
    if k == "item":
        return "(item)"
    if k in ("comp", "nohydrate", "nossr"):
        return "(%s %s)" % (k, sx_views(v[1]))
    raise ValueError(v)


def sx_state(st):
    parts = []
    for k, v in sorted(st["s"].items()):
        parts.append("(s %d %s)" % (k, "none" if v is None else hx(v)))
    for k, v in sorted(st["b"].items()):
        parts.append("(b %d %d)" % (k, int(v)))
    for k, v in sorted(st["l"].items()):
        parts.append("(l %d (%s))" % (k, " ".join(str(i) for i in v)))
    return "(" + " ".join(parts) + ")"


def cq_str(s):
    return '(H "%s")' % s.encode("utf8").hex()


def cq_attr(a):
    if a[0] == "a":
        return "AStr %s %s" % (cq_str(a[1]), cq_str(a[2]))
    if a[0] == "adyn":
        return "ADyn %s %d" % (cq_str(a[1]), a[2])
    if a[0] == "b":
        return "ABool %s %s" % (cq_str(a[1]), "true" if a[2] else "false")
    return "ABoolDyn %s %d" % (cq_str(a[1]), a[2])


def cq_views(vs):
    return glist([cq_view(v) for v in vs])


def cq_view(v):
    k = v[0]
    if k == "el":
        return "VEl %s %s %s" % (cq_str(v[1]), glist([cq_attr(a) for a in v[2]]), cq_views(v[3]))
    if k == "text":
        return "VText %s" % cq_str(v[1])
    if k == "dyntext":
        return "VDynText %d" % v[1]
    if k == "dyn":
        return "VDyn %d %s %s" % (v[1], cq_views(v[2]), cq_views(v[3]))
    if k == "frag":
        return "VFrag %s" % cq_views(v[1])
    if k == "show":
        return "VShow %d %s" % (v[1], cq_views(v[2]))
    if k == "list":
        return "VList %s %d %s" % ("true" if v[1] else "false", v[2], cq_views(v[3]))
    if k == "item":
        return "VItem"
    return "%s %s" % ({"comp": "VComp", "nohydrate": "VNoHydrate", "nossr": "VNoSsr"}[k], cq_views(v[1]))


def cq_state(st):
    return "(VState %s %s %s)" % (
        glist(["(%d, %s)" % (k, "None" if v is None else "Some " + cq_str(v)) for k, v in sorted(st["s"].items())]),
        glist(["(%d, %s)" % (k, "true" if v else "false") for k, v in sorted(st["b"].items())]),
        glist(["(%d, %s)" % (k, glist(["(%d)%%Z" % i for i in v])) for k, v in sorted(st["l"].items())]))


class ViewGen:
    def __init__(self, rng, feats=None):
        self.r = rng
        self.f = feats or {}
        self.state = {"s": {}, "b": {}, "l": {}}
        self.n = 0

    def string(self, maxlen=4):
        r = self.r
        n = r.randint(0, maxlen)
        return "".join(r.choice(META) for _ in range(n))

    def new_s(self, allow_none=True):
        k = len(self.state["s"])
        self.state["s"][k] = None if (allow_none and self.r.random() < 0.25) else self.string()
        return k

    def new_b(self):
        k = len(self.state["b"])
        self.state["b"][k] = self.r.random() < 0.6
        return k

    def new_l(self):
        k = len(self.state["l"])
        n = self.r.choice([0, 1, 2, 3])
        self.state["l"][k] = self.r.sample(range(1, 6), n)
        return k

    def attrs(self):
        r = self.r
        out = []
        names = r.sample(ATTR_NAMES, r.randint(0, 3))
        for n in names:
            if r.random() < 0.35 and self.f.get("dyn_attr", 1):
                out.append(("adyn", n, self.new_s()))
            else:
                out.append(("a", n, self.string()))
        for n in r.sample(BOOL_NAMES, r.choice([0, 0, 1, 2])):
            if r.random() < 0.4 and self.f.get("dyn_attr", 1):
                out.append(("bdyn", n, self.new_b()))
            else:
                out.append(("b", n, r.random() < 0.5))
        return out

    def views(self, depth, in_list=False, lo=0, hi=3):
        return [self.view(depth, in_list) for _ in range(self.r.randint(lo, hi))]

    def view(self, depth, in_list=False):
        r = self.r
        self.n += 1
        choices = [("text", 3), ("dyntext", 2)]
        if in_list:
            choices.append(("item", 2))
        if depth > 0 and self.n < 25:
            choices += [("el", 6), ("void", 1.5), ("frag", 1), ("comp", 0.7)]
            for k, w in (("dyn", 2), ("show", 1.2), ("list", 1.2), ("nohydrate", 0.4), ("nossr", 0.3)):
                if self.f.get(k, 1):
                    choices.append((k, w * self.f.get(k, 1)))
        kinds, ws = zip(*choices)
        k = r.choices(kinds, ws)[0]
        if k == "text":
            return ("text", self.string())
        if k == "dyntext":
            return ("dyntext", self.new_s(allow_none=False))
        if k == "item":
            return ("item",)
        if k == "el":
            return ("el", r.choice(TAGS), self.attrs(), self.views(depth - 1, in_list))
        if k == "void":
            return ("el", r.choice(VOID), self.attrs(), [])
        if k == "frag":
            return ("frag", self.views(depth - 1, in_list, 0, 3))
        if k == "comp":
            return ("comp", self.views(depth - 1, in_list, 1, 2))
        if k == "dyn":
            return ("dyn", self.new_b(), self.views(depth - 1, in_list, 0, 2), self.views(depth - 1, in_list, 0, 2))
        if k == "show":
            return ("show", self.new_b(), self.views(depth - 1, in_list, 1, 2))
        if k == "list":
            return ("list", r.random() < 0.5, self.new_l(), self.views(depth - 1, True, 1, 2))
        if k == "nohydrate":
            return ("nohydrate", self.views(depth - 1, in_list, 1, 2))
        return ("nossr", self.views(depth - 1, in_list, 1, 2))


def random_view(rng, depth=3, feats=None):
    g = ViewGen(rng, feats)
    v = g.view(depth)
    return g.state, v


# ---------------------------------------------------------------------------------------
# what "the view that was built" means as a token stream (independent of the Gallina build):
# ("S", tag, [(name, value|None)...]) ("E", tag) ("T", text) ("C", data)

def expected_tokens(v, st, item=None):
    k = v[0]
    if k == "el":
        attrs = []
        for a in v[2]:
            if a[0] == "a":
                attrs.append((a[1], a[2]))
            elif a[0] == "adyn":
                if st["s"].get(a[2]) is not None:
                    attrs.append((a[1], st["s"][a[2]]))
        for a in v[2]:
            if a[0] == "b" and a[2]:
                attrs.append((a[1], None))
            elif a[0] == "bdyn" and st["b"].get(a[2]):
                attrs.append((a[1], None))
        out = [("S", v[1], attrs)]
        if v[1] not in VOID:
            for c in v[3]:
                out += expected_tokens(c, st, item)
            out.append(("E", v[1]))
        return out
    if k == "text":
        return [("T", v[1])]
    if k == "dyntext":
        return [("C", "t"), ("T", st["s"].get(v[1]) or ""), ("C", "")]
    if k == "dyn":
        out = [("C", "/")]
        for c in (v[2] if st["b"].get(v[1]) else v[3]):
            out += expected_tokens(c, st, item)
        return out + [("C", "/")]
    if k == "show":
        out = [("C", "/")]
        if st["b"].get(v[1]):
            for c in v[2]:
                out += expected_tokens(c, st, item)
        return out + [("C", "/")]
    if k == "list":
        out = []
        for it in st["l"].get(v[2], []):
            for c in v[3]:
                out += expected_tokens(c, st, it)
        return out
    if k == "item":
        return [("T", "" if item is None else str(item))]
    if k in ("frag", "comp", "nohydrate"):
        out = []
        for c in v[1]:
            out += expected_tokens(c, st, item)
        return out
    if k == "nossr":
        return [("S", "no-ssr", []), ("E", "no-ssr")]
    raise ValueError(v)


def norm_tokens(toks):
    out = []
    for t in toks:
        if t[0] == "T":
            if out and out[-1][0] == "T":
                out[-1] = ("T", out[-1][1] + t[1])
            elif t[1] != "":
                out.append(t)
            continue
        out.append(t)
    return [t for t in out if not (t[0] == "T" and t[1] == "")]


def parse_coq_tokens(line):
    """inverse of Ssr/Show.v show_tokens; returns None for UNPARSEABLE"""
    if line == "UNPARSEABLE":
        return None
    out = []
    if not line:
        return out
    for t in line.split(" "):
        kind, rest = t[0], t[2:]
        if kind == "S":
            tag, attrs = rest.split(":", 1)
            al = []
            for a in (attrs.split(",") if attrs else []):
                if "=" in a:
                    n, v = a.split("=", 1)
                    al.append((bytes.fromhex(n).decode("utf8"), bytes.fromhex(v).decode("utf8", "surrogateescape")))
                else:
                    al.append((bytes.fromhex(a).decode("utf8"), None))
            out.append(("S", bytes.fromhex(tag).decode("utf8"), al))
        elif kind == "E":
            out.append(("E", bytes.fromhex(rest).decode("utf8")))
        elif kind == "T":
            out.append(("T", bytes.fromhex(rest).decode("utf8", "surrogateescape")))
        else:
            out.append(("C", bytes.fromhex(rest).decode("utf8", "surrogateescape")))
    return out


def expected_keys(v, st, hyd=True, item=None, counter=None, out=None):
    """hydration keys (element part) of the EMITTED elements in document order, from the view alone: elements take keys in
    creation order (pre-order), children of Show are created even when hidden, NoHydrate creates without keys"""
    if counter is None:
        counter, out = [0], []
    k = v[0]

    def kids(vs, emit=True, hyd=hyd, item=item):
        sub = []
        for c in vs:
            expected_keys(c, st, hyd, item, counter, sub)
        if emit:
            out.extend(sub)

    if k == "el":
        if hyd:
            out.append(counter[0])
            counter[0] += 1
        if v[1] not in VOID:
            kids(v[3])
    elif k == "dyn":
        kids(v[2] if st["b"].get(v[1]) else v[3])
    elif k == "show":
        kids(v[2], emit=bool(st["b"].get(v[1])))
    elif k == "list":
        for it in st["l"].get(v[2], []):
            kids(v[3], item=it)
    elif k in ("frag", "comp"):
        kids(v[1])
    elif k == "nohydrate":
        kids(v[1], hyd=False)
    elif k == "nossr":
        if hyd:
            out.append(counter[0])
            counter[0] += 1
    return out
