"""C10 -- batch defers all reactions to the end of the outermost batch (DESIGN.md 5.C10)."""
import c02
import rcheck
import reactive_gen

PID = "C10"
FEATS = {"untracked": 0.1, "selector": 1, "effect": 1.5, "nested": 0.2, "scope": 0.3, "batch": 4, "nested_batch": 0.6,
         "log": 0.5, "late_create": 0.3}


def batch_in_effect(rng, n):
    out = []
    for i in range(n):
        prog = [("signal", 1, ("lit", 0)), ("signal", 2, ("lit", 0)), ("signal", 3, ("lit", 0)),
                ("memo", 4, ("body", None, [], ("add", ("get", 2), ("get", 3)))),
                ("effect", 5, ("body", None, [], ("get", 4))),
                ("effect", 6, ("body", None, [("batch", [("set", 2, ("get", 1)), ("log", ("getu", 4)),
                                                           ("batch", [("set", 3, ("add", ("get", 1), ("lit", rng.randint(0, 2))))]),
                                                           ("log", ("getu", 4))])], ("lit", 0)))]
        for _ in range(rng.randint(1, 4)):
            prog.append(("set", 1, ("lit", rng.randint(0, 4))))
        prog.append(("batch", [("set", 1, ("lit", 7)), ("batch", [("set", 1, ("lit", 8))]), ("set", 2, ("lit", 1))]))
        out.append(prog)
    return out


def dispose_in_batch():
    """a signal that is written and then destroyed (directly, or with the scope that owns it) inside the batch, before or between the
    writes to signals whose reactions must still all happen when the outermost batch returns (seed C10-f)"""
    out = []
    for how in ("sig", "scope"):
        for pos in (0, 1, 2):
            for nest in (False, True):
                for watched in (False, True):
                    tmp = [("signal", 7, ("lit", 0))] if how == "sig" else [("scope", 9, [("signal", 7, ("lit", 0))])]
                    prog = [("signal", 1, ("lit", 0)), ("signal", 2, ("lit", 0))] + tmp + [
                        ("memo", 4, ("body", None, [], ("add", ("get", 1), ("get", 2)))),
                        ("memo", 5, ("body", None, [], ("add", ("get", 2), ("lit", 10)))),
                        ("effect", 6, ("body", None, [], ("get", 2)))]
                    if watched:
                        prog.append(("scope", 3, [("effect", 8, ("body", None, [], ("get", 7)))]))
                    gone = [("set", 7, ("lit", 1))] + ([("dispose", 3)] if watched else []) + [("dispose", 7 if how == "sig" else 9)]
                    if nest:
                        gone = [("batch", gone)]
                    w = [("set", 1, ("lit", 1)), ("set", 2, ("lit", 2))]
                    body = w[:pos] + gone + w[pos:]
                    prog += [("batch", body), ("set", 2, ("lit", 5))]
                    out.append(prog)
    return out


def gen(tier, rng):
    n = 900 if tier == "quick" else 12000
    cases = [("batch-in-effect:%d" % i, p) for i, p in enumerate(batch_in_effect(rng, 30 if tier == "quick" else 300))]
    cases += [("dispose-in-batch:%d" % i, p) for i, p in enumerate(dispose_in_batch())]
    cases += [("fanin-batch:%d" % i, p) for i, p in enumerate(c02.fanin_batches(rng, 300 if tier == "quick" else 4000))]
    cases += [("random:%d" % i, p) for i, p in
              enumerate(reactive_gen.random_programs(rng.randrange(1 << 30), n, FEATS, (3, 7), (3, 7)))]
    # the same batches started while another root is the current one
    cases += rcheck.via_foreign_copies(cases, kinds=("batch",), every=4)
    return cases


def oracle(prog, steps):
    only = {k for k, s in enumerate(prog) if s[0] == "batch"}
    fails = rcheck.batch_failures(prog, steps)
    fails += [f for f in rcheck.consistency_failures(prog, steps, only_steps=only)]
    return fails


def nontrivial(prog, steps):
    """a top-level batch with >= 2 writes whose flush ran at least one computation"""
    for k, st in enumerate(steps):
        if k < len(prog) and prog[k][0] == "batch" and len(rcheck.written_signals(prog[k])) >= 1:
            if sum(1 for l in st["events"] if l.startswith("run ")) >= 1 and st["events"].count("batch 1") >= 1:
                return True
    return False


def main(argv):
    return rcheck.run(
        PID, argv, module="C10", theorems=["C10_batch_defers", "C10_batched_exec", "C10_batching_kept", "C10_inner_batch", "C10_outermost_batch",
                                        "C10_batch_quiet_log", "C10_flush_consistent"], gen=gen, oracle=oracle, nontrivial=nontrivial,
        rule=("batch bodies with 1-3 writes to 1-3 signals, repeated writes, nesting up to depth 3, reads of derived nodes inside "
              "the body, batches started inside effects; non-trivial = a top-level batch whose flush ran a computation; "
              "distinct = distinct program text"),
        assumptions=["known finding F1 is recognised in the post-batch consistency check as in C01"])
